package rules

import (
	"fmt"
	"go/ast"
	"go/parser"
	"go/token"
	"go/types"
	"sort"
	"strings"
	"sync"

	"verif/checker/core"
)

// Rules added after the first round of independently seeded changes showed what the
// first rule set could not see.  Each is a structural necessary condition of its property.
func init() {
	core.Register(&core.Rule{
		ID:    "R15.4",
		Title: "request URLs are never rebuilt from the decoded path",
		Text: "In package restli (non-test) every url.URL composite literal that sets Path also sets RawPath, and newRequest never reassigns its URL variable: url.URL.String() re-encodes a URL without RawPath with Go's default escaper, " +
			"which differs from the Rest.li path encoding (',' '(' ')' ':' '/' inside keys).",
		Props: []string{"C15", "C02", "C14"},
		Floor: map[string]int{"v2": 1, "root": 1},
		Run:   runR154,
	})
	core.Register(&core.Rule{
		ID:    "R04.7",
		Title: "allocation sizes are not taken from peer-controlled fields",
		Text: "In package restli no argument of bytes.Buffer.Grow, make(…, n) or a slice bound is derived (through local assignments) from http.Response.ContentLength / http.Request.ContentLength or a header value: " +
			"a hostile peer chooses that number, and Grow / make panic (or exhaust memory) on absurd values in the caller's goroutine.",
		Props: []string{"C04", "C14", "C05"},
		Floor: map[string]int{"v2": 1, "root": 1},
		Run:   runR047,
	})
	core.Register(&core.Rule{
		ID:      "R06.6",
		Title:   "required-field lists never share a backing array",
		Text:    "Every store to RequiredFields.fields is an append to the receiver's own (fresh) list, a make or a literal — never another list's slice: Add appends in place, so an aliased list lets two records overwrite each other's required fields.",
		Props:   []string{"C06", "C01"},
		Modules: []string{"v2"},          // the root module's RequiredFields is an immutable []string
		Floor:   map[string]int{"v2": 1}, // Add's own append; NewRequiredFields may reuse Add (benign C13-f3)
		Run:     runR066,
	})
	core.Register(&core.Rule{
		ID:    "R09.5",
		Title: "serialization keeps no state between uses",
		Text: "The serialization and hashing packages (restlicodec, fnv1a, restli/equals, restli/batchkeyset) declare no package-level sync.Pool, cache map or other mutable variable reachable from writers (the custom-typeref registry, keyed by type and holding immutable adapters, is the one listed exception), " +
			"and key-set encoders do not memoise: a method that stores an encoding into its receiver requires every mutator of that receiver to reset the same field.",
		Props: []string{"C09", "C16", "C01", "C03"},
		Floor: map[string]int{"v2": 5, "root": 4},
		Run:   runR095,
	})
	core.Register(&core.Rule{
		ID:    "R10.5",
		Title: "hash and equality helpers cannot tell nil from empty",
		Text:  "In fnv1a and restli/equals no slice- or map-typed value is compared with nil (only len() is consulted): generated Equals treats nil and empty collections as equal, so a hash or comparison that distinguishes them breaks Equal => same hash.",
		Props: []string{"C10"},
		Floor: map[string]int{"v2": 2, "root": 2},
		Run:   runR105,
	})
	core.Register(&core.Rule{
		ID: "R10.6", Generated: true, GeneratedRoot: true,
		Title: "generated Equals is symmetric in shape",
		Text:  "In every generated Equals, after the identity / nil guards on the two operands, no comparison is nested under a condition that mentions only the receiver's (or only the other's) fields: such a guard makes a.Equals(b) and b.Equals(a) differ.",
		Props: []string{"C10"},
		Floor: map[string]int{"corpus": 20},
		Run:   runR106,
	})
}

func runR154(c *core.Ctx) {
	const rel = "restli"
	p := c.M.Pkg(rel)
	inf := p.TypesInfo
	n, bad := 0, 0
	for _, file := range p.Syntax {
		if strings.HasSuffix(c.M.Fset.File(file.Pos()).Name(), "_test.go") {
			continue
		}
		ast.Inspect(file, func(x ast.Node) bool {
			cl, ok := x.(*ast.CompositeLit)
			if !ok {
				return true
			}
			nn := namedOf(inf.Types[cl].Type)
			if nn == nil || nn.Obj().Pkg() == nil || nn.Obj().Pkg().Path() != "net/url" || core.NameOf(nn.Obj()) != "URL" {
				return true
			}
			n++
			hasPath, hasRaw := false, false
			for _, el := range cl.Elts {
				if kv, ok := el.(*ast.KeyValueExpr); ok {
					if id, ok := kv.Key.(*ast.Ident); ok {
						switch id.Name {
						case "Path":
							hasPath = true
						case "RawPath":
							hasRaw = true
						}
					}
				}
			}
			if hasPath && !hasRaw {
				bad++
				c.Bad(rel, enclosingFuncName(file, cl.Pos()), fmt.Sprintf("url.URL literal #%d keeps the encoded path", n), cl.Pos(), "the literal sets Path without RawPath: String() re-encodes the decoded path with Go's escaper and the Rest.li encoding of the keys is lost")
			}
			return true
		})
	}
	// newRequest never reassigns its URL variable
	_, fd := mustDecl(c, rel, "newRequest")
	var uObj types.Object
	ast.Inspect(fd.Body, func(x ast.Node) bool {
		if as, ok := x.(*ast.AssignStmt); ok && as.Tok == token.DEFINE && len(as.Rhs) == 1 && uObj == nil {
			if call, ok := core.Unparen(as.Rhs[0]).(*ast.CallExpr); ok {
				if cf := core.Callee(inf, call); cf != nil && core.NameOf(cf) == "formatQueryUrl" {
					uObj = core.ObjOf(inf, as.Lhs[0])
				}
			}
		}
		return true
	})
	reassigned := false
	if uObj != nil {
		ast.Inspect(fd.Body, func(x ast.Node) bool {
			if as, ok := x.(*ast.AssignStmt); ok && as.Tok != token.DEFINE {
				for _, l := range as.Lhs {
					if id, ok := core.Unparen(l).(*ast.Ident); ok && core.ObjOf(inf, id) == uObj {
						reassigned = true
					}
				}
			}
			return true
		})
	}
	c.Check(uObj != nil && !reassigned && bad == 0, rel, "newRequest", "the URL built by formatQueryUrl reaches the request unchanged except for RawQuery", fd.Pos(), fmt.Sprintf("%d url.URL literals in the package", n),
		"the request URL is rebuilt or reassigned after formatQueryUrl")
}

func runR047(c *core.Ctx) {
	const rel = "restli"
	p := c.M.Pkg(rel)
	inf := p.TypesInfo
	sinks, bad := 0, 0
	for _, fd := range c.M.FuncDecls(rel) {
		if fd.Body == nil || strings.HasSuffix(c.M.Fset.File(fd.Pos()).Name(), "_test.go") {
			continue
		}
		// tainted locals: assigned from an expression mentioning .ContentLength or Header.Get / strconv of it
		tainted := map[types.Object]bool{}
		isSource := func(e ast.Expr) bool {
			found := false
			ast.Inspect(e, func(x ast.Node) bool {
				switch y := x.(type) {
				case *ast.SelectorExpr:
					if fv, ok := core.ObjOf(inf, y).(*types.Var); ok && fv.IsField() && core.NameOf(fv) == "ContentLength" && fv.Pkg() != nil && fv.Pkg().Path() == "net/http" {
						found = true
					}
				case *ast.Ident:
					if tainted[core.ObjOf(inf, y)] {
						found = true
					}
				case *ast.CallExpr:
					if cf := core.Callee(inf, y); cf != nil && core.NameOf(cf) == "Get" && core.IsMethod(cf, "net/http", "Header", "Get") {
						found = true
					}
				}
				return !found
			})
			return found
		}
		for changed := true; changed; {
			changed = false
			ast.Inspect(fd.Body, func(x ast.Node) bool {
				if as, ok := x.(*ast.AssignStmt); ok && len(as.Lhs) == len(as.Rhs) {
					for i, l := range as.Lhs {
						if o := core.ObjOf(inf, l); o != nil && !tainted[o] && isSource(as.Rhs[i]) {
							if b, ok := o.Type().Underlying().(*types.Basic); ok && b.Info()&types.IsInteger != 0 {
								tainted[o] = true
								changed = true
							}
						}
					}
				}
				return true
			})
		}
		ast.Inspect(fd.Body, func(x ast.Node) bool {
			call, ok := x.(*ast.CallExpr)
			if !ok {
				return true
			}
			var sizeArgs []ast.Expr
			what := ""
			if cf := core.Callee(inf, call); cf != nil && core.NameOf(cf) == "Grow" && (core.IsMethod(cf, "bytes", "Buffer", "Grow") || core.IsMethod(cf, "strings", "Builder", "Grow")) {
				sizeArgs, what = call.Args, "Grow"
			}
			if id, ok := core.Unparen(call.Fun).(*ast.Ident); ok && id.Name == "make" {
				if _, isB := inf.Uses[id].(*types.Builtin); isB && len(call.Args) >= 2 {
					sizeArgs, what = call.Args[1:], "make"
				}
			}
			if what == "" {
				return true
			}
			sinks++
			for _, a := range sizeArgs {
				if isSource(a) {
					bad++
					c.Bad(rel, core.DeclName(fd), fmt.Sprintf("%s size #%d is not peer-controlled", what, ordinal(fd, call)), call.Pos(), "the size derives from Content-Length / a header value chosen by the peer: absurd values panic or exhaust memory")
				}
			}
			return true
		})
	}
	if bad == 0 {
		c.OK(rel, "-", fmt.Sprintf("none of the %d allocation sizes in the package derives from a peer-controlled field", sinks), token.NoPos, "")
	}
}

func runR066(c *core.Ctx) {
	const rel = "restlicodec"
	inf := info(c, rel)
	rfT, _ := mustObj(c, rel, "RequiredFields").(*types.TypeName)
	n := 0
	for _, fd := range c.M.FuncDecls(rel) {
		if fd.Body == nil {
			continue
		}
		ast.Inspect(fd.Body, func(x ast.Node) bool {
			if cl, ok := x.(*ast.CompositeLit); ok {
				// RequiredFields{fields: e} / RequiredFields{e}: a store like any other
				if nn := namedOf(inf.Types[cl].Type); nn != nil && nn.Obj() == rfT {
					for k, el := range cl.Elts {
						var val ast.Expr
						if kv, ok := el.(*ast.KeyValueExpr); ok {
							if id, ok := kv.Key.(*ast.Ident); ok && core.NameOf(inf.Uses[id]) == "fields" {
								val = kv.Value
							}
						} else if k == 0 {
							val = el
						}
						if val == nil {
							continue
						}
						n++
						fresh := false
						switch r := core.Unparen(val).(type) {
						case *ast.CompositeLit:
							fresh = true
						case *ast.CallExpr:
							if id, ok := core.Unparen(r.Fun).(*ast.Ident); ok && (id.Name == "make" || id.Name == "append" && len(r.Args) >= 1 && core.IsNil(inf, r.Args[0])) {
								fresh = true
							}
						default:
							fresh = core.IsNil(inf, val)
						}
						c.Check(fresh, rel, core.DeclName(fd), fmt.Sprintf("RequiredFields literal #%d builds a list of its own", ordinal(fd, cl)), cl.Pos(), "fresh list",
							core.ExprString(val)+" aliases another list's backing array: a later Add on either list overwrites the other's entries")
					}
				}
				return true
			}
			as, ok := x.(*ast.AssignStmt)
			if !ok {
				return true
			}
			for i, l := range as.Lhs {
				base, isF := fieldNamed(inf, l, rfT, "fields")
				if !isF || i >= len(as.Rhs) {
					continue
				}
				n++
				okStore, how := false, ""
				switch r := core.Unparen(as.Rhs[i]).(type) {
				case *ast.CallExpr:
					if id, ok := core.Unparen(r.Fun).(*ast.Ident); ok {
						switch id.Name {
						case "append":
							// append(<same object>.fields, …) or append(nil, …)
							if len(r.Args) >= 1 {
								if b2, isF2 := fieldNamed(inf, r.Args[0], rfT, "fields"); isF2 && core.SameExpr(inf, b2, base) {
									okStore, how = true, "append to its own list"
								}
								if core.IsNil(inf, r.Args[0]) {
									okStore, how = true, "append to nil"
								}
								if conv, ok := core.Unparen(r.Args[0]).(*ast.CallExpr); ok && len(conv.Args) == 1 && core.IsNil(inf, conv.Args[0]) {
									okStore, how = true, "append to nil"
								}
							}
						case "make":
							okStore, how = true, "make"
						}
					}
				case *ast.CompositeLit:
					okStore, how = true, "literal"
				}
				c.Check(okStore, rel, core.DeclName(fd), fmt.Sprintf("store to RequiredFields.fields #%d builds a list of its own", ordinal(fd, as)), as.Pos(), how,
					core.ExprString(as.Rhs[i])+" aliases another list's backing array: a later Add on either list overwrites the other's entries")
			}
			return true
		})
	}
	if n == 0 {
		c.Unknown(rel, "-", "stores to RequiredFields.fields", token.NoPos, "none found")
	}
}

func runR095(c *core.Ctx) {
	mut := mutatingMethods(c)
	for _, rel := range []string{"restlicodec", "fnv1a", "restli/equals", "restli/batchkeyset"} {
		p := c.M.Pkg(rel)
		if p == nil {
			continue
		}
		scope := p.Types.Scope()
		var problems []string
		for _, name := range scope.Names() {
			v, ok := scope.Lookup(name).(*types.Var)
			if !ok {
				continue
			}
			t := v.Type()
			ts := t.String()
			switch {
			case core.NameOf(v) == "customTyperefAdapters":
				// the registry: LoadOrStore of immutable adapters keyed by type (R17.6)
			case strings.Contains(ts, "sync.Pool"):
				problems = append(problems, name+" is a sync.Pool: objects returned to it carry state into later serializations")
			case isSyncType(t):
				problems = append(problems, name+" is a "+ts+" holding state across calls")
			default:
				// any mutating use outside init
				for _, q := range c.M.Roots {
					for _, file := range q.Syntax {
						if strings.HasSuffix(c.M.Fset.File(file.Pos()).Name(), "_test.go") {
							continue
						}
						par := core.Parents(file)
						ast.Inspect(file, func(x ast.Node) bool {
							id, ok := x.(*ast.Ident)
							if !ok || q.TypesInfo.Uses[id] != v {
								return true
							}
							fn := enclosingFuncName(file, id.Pos())
							if fn == "init" || fn == "(package level)" {
								return true
							}
							if k := classifyUse(c, q.TypesInfo, par, id, mut); strings.HasPrefix(k, "mutates") {
								problems = append(problems, name+" "+k+" in "+fn)
							}
							return true
						})
					}
				}
			}
		}
		c.Check(len(problems) == 0, rel, "-", "package keeps no pool, cache or mutable variable between serializations", token.NoPos, "", strings.Join(dedupe(problems), "; "))
	}
	// memoisation in key sets
	const ks = "restli/batchkeyset"
	p := c.M.Pkg(ks)
	inf := p.TypesInfo
	type store struct {
		field string
		fd    *ast.FuncDecl
	}
	storesBy := map[string]map[string][]string{} // type -> method -> fields stored
	for _, fd := range c.M.FuncDecls(ks) {
		if fd.Body == nil || fd.Recv == nil {
			continue
		}
		recv := recvObj(inf, fd)
		tn := strings.Split(strings.TrimPrefix(strings.TrimPrefix(core.DeclName(fd), "(*"), "("), ")")[0]
		ast.Inspect(fd.Body, func(x ast.Node) bool {
			var lhs []ast.Expr
			switch y := x.(type) {
			case *ast.AssignStmt:
				lhs = y.Lhs
			case *ast.IncDecStmt:
				lhs = []ast.Expr{y.X}
			}
			for _, l := range lhs {
				if _, isIdent := core.Unparen(l).(*ast.Ident); isIdent {
					continue
				}
				if r := rootIdent(l); r != nil && inf.Uses[r] == recv && recv != nil {
					for _, f := range recvSelFields(inf, recv, l) {
						if storesBy[tn] == nil {
							storesBy[tn] = map[string][]string{}
						}
						storesBy[tn][fd.Name.Name] = append(storesBy[tn][fd.Name.Name], f)
					}
				}
			}
			return true
		})
	}
	for tn, methods := range storesBy {
		for m, fields := range methods {
			if !strings.HasPrefix(strings.ToLower(m), "encode") && m != "EncodeQueryParams" {
				continue
			}
			// an encoder stores into its receiver: memoisation; every other storing method must reset the same fields
			for _, f := range dedupe(fields) {
				var missing []string
				for m2, f2 := range methods {
					if m2 == m {
						continue
					}
					has := false
					for _, x := range f2 {
						if x == f {
							has = true
						}
					}
					if !has {
						missing = append(missing, m2)
					}
				}
				// mutators that store nothing at all but call AddKey etc. are covered transitively; list all methods of the type that mutate
				c.Check(len(missing) == 0, ks, "(*"+tn+")."+m, "memoised field "+f+" is reset by every mutator of the key set", token.NoPos, "",
					"the encoder caches into "+f+" but "+strings.Join(missing, ", ")+" change the set without resetting it: a later encoding returns the stale ids")
			}
		}
	}
	c.OK(ks, "-", "key-set encoders checked for memoisation", token.NoPos, fmt.Sprintf("%d types store through their receiver", len(storesBy)))
}

func runR105(c *core.Ctx) {
	for _, rel := range []string{"fnv1a", "restli/equals"} {
		p := c.M.Pkg(rel)
		inf := p.TypesInfo
		var problems []string
		for _, file := range p.Syntax {
			if strings.HasSuffix(c.M.Fset.File(file.Pos()).Name(), "_test.go") {
				continue
			}
			ast.Inspect(file, func(x ast.Node) bool {
				be, ok := x.(*ast.BinaryExpr)
				if !ok || (be.Op != token.EQL && be.Op != token.NEQ) {
					return true
				}
				var other ast.Expr
				switch {
				case core.IsNil(inf, be.Y):
					other = be.X
				case core.IsNil(inf, be.X):
					other = be.Y
				default:
					return true
				}
				t := inf.Types[other].Type
				if t == nil {
					return true
				}
				// type parameters constrained to slices/maps count too
				switch t.Underlying().(type) {
				case *types.Slice, *types.Map:
					problems = append(problems, fmt.Sprintf("%s: %s is compared with nil", enclosingFuncName(file, be.Pos()), core.ExprString(other)))
				}
				return true
			})
		}
		c.Check(len(problems) == 0, rel, "-", "no slice or map is compared with nil (nil and empty are the same value)", token.NoPos, "", strings.Join(problems, "; "))
	}
}

func runR106(c *core.Ctx) {
	if c.Corpus.Failure != "" {
		return
	}
	for _, g := range genModel(c) {
		if g.Kind != "record" && g.Kind != "union" && g.Kind != "complexkey" {
			continue
		}
		eq := g.Methods["Equals"]
		if eq == nil {
			continue
		}
		inf := g.inf()
		recv, other := recvObj(inf, eq), otherParam(inf, eq)
		var problems []string
		ast.Inspect(eq.Body, func(n ast.Node) bool {
			ifs, ok := n.(*ast.IfStmt)
			if !ok {
				return true
			}
			mine := recvSelFields(inf, recv, ifs.Cond)
			theirs := recvSelFields(inf, other, ifs.Cond)
			if (len(mine) > 0) != (len(theirs) > 0) {
				problems = append(problems, "the condition "+core.ExprString(ifs.Cond)+" consults only one operand's fields: a.Equals(b) and b.Equals(a) can differ")
			}
			return true
		})
		c.Check(len(problems) == 0, g.Rel, g.Name, "Equals treats its two operands symmetrically", eq.Pos(), "", strings.Join(dedupe(problems), "; "))
	}
}

func init() {
	core.Register(&core.Rule{
		ID: "R11.6", Generated: true,
		Title: "a delete delegated to an included record keeps its verdict",
		Text: "In every generated _PartialUpdate.UnmarshalDeleteField (and UnmarshalSetField's delegations are covered by R06.3G), the error returned by a delegated UnmarshalDeleteField call is returned to the caller on every path unless it was compared equal to the no-such-field sentinel (or to nil): " +
			"otherwise the cannot-delete-a-required-field verdict of an included record is overwritten by the next lookup and the delete is accepted.",
		Props: []string{"C11"},
		Floor: map[string]int{"corpus": 10},
		Run:   runR116,
	})
}

func runR116(c *core.Ctx) {
	if c.Corpus.Failure != "" {
		return
	}
	for _, g := range genModel(c) {
		if !strings.HasSuffix(g.Name, "_PartialUpdate") {
			continue
		}
		ud := g.Methods["UnmarshalDeleteField"]
		if ud == nil {
			continue
		}
		inf := g.inf()
		isDelegation := func(e ast.Expr) bool {
			call, ok := core.Unparen(e).(*ast.CallExpr)
			if !ok {
				return false
			}
			f := core.Callee(inf, call)
			return f != nil && core.NameOf(f) == "UnmarshalDeleteField"
		}
		isSentinel := func(e ast.Expr) bool {
			o := core.ObjOf(inf, e)
			return o != nil && core.NameOf(o) == "NoSuchFieldErr"
		}
		var errObj types.Object // the variable holding the pending verdict
		var problems []string
		delegations := 0
		const (
			clean   = 0
			pending = 1
			cleared = 2
		)
		fl := core.NewFlow(c.M, inf, ud.Body)
		fl.Run(&core.Automaton{
			Init: clean,
			Node: func(st int, n ast.Node) int {
				switch x := n.(type) {
				case *ast.AssignStmt:
					if len(x.Lhs) == 1 && len(x.Rhs) == 1 && isDelegation(x.Rhs[0]) {
						o := core.ObjOf(inf, x.Lhs[0])
						if st == pending {
							problems = append(problems, c.M.Position(x.Pos())+": the verdict of the previous delegated call is overwritten before it was returned or found to be the no-such-field sentinel")
						}
						errObj = o
						return pending
					}
					if st == pending {
						for _, o := range core.AssignedObjs(inf, x) {
							if o == errObj {
								problems = append(problems, c.M.Position(x.Pos())+": the delegated verdict is overwritten")
								return clean
							}
						}
					}
				case *ast.ReturnStmt:
					if st == pending {
						ok := len(x.Results) == 0 // named result
						if len(x.Results) == 1 && core.ObjOf(inf, x.Results[0]) == errObj && errObj != nil {
							ok = true
						}
						if !ok {
							problems = append(problems, c.M.Position(x.Pos())+": returns something else while a delegated verdict other than the sentinel may be pending")
						}
					}
				}
				return st
			},
			Edge: func(st int, facts []core.Fact) (int, bool) {
				if st != pending {
					return st, true
				}
				for _, f := range facts {
					be, ok := core.Unparen(f.Expr).(*ast.BinaryExpr)
					if !ok || (be.Op != token.EQL && be.Op != token.NEQ) {
						continue
					}
					var other ast.Expr
					switch {
					case core.ObjOf(inf, be.X) == errObj:
						other = be.Y
					case core.ObjOf(inf, be.Y) == errObj:
						other = be.X
					default:
						continue
					}
					equal := (be.Op == token.EQL) == f.Val
					if equal && (isSentinel(other) || core.IsNil(inf, other)) {
						return cleared, true
					}
				}
				return st, true
			},
		})
		ast.Inspect(ud.Body, func(n ast.Node) bool {
			if call, ok := n.(*ast.CallExpr); ok && isDelegation(call) {
				delegations++
			}
			return true
		})
		c.Check(len(problems) == 0 && delegations > 0, g.Rel, g.Name, "every delegated delete verdict is returned unless it is the sentinel", ud.Pos(), fmt.Sprintf("%d delegated calls", delegations),
			strings.Join(dedupe(problems), "; ")+map[bool]string{true: "no delegated UnmarshalDeleteField call found", false: ""}[delegations == 0])
	}
}

func init() {
	core.Register(&core.Rule{
		ID:    "R02.5",
		Title: "paths are read in their encoded form only",
		Text: "Package restli (non-test) never reads the decoded url.URL.Path (reads go through EscapedPath(), or RawPath where it is known to be set). URL.Path is decoded once by net/http and the ROR2 path reader decodes again; " +
			"URL.RawPath is empty whenever Go's default encoding equals what was received, so a fallback to Path double-decodes keys like `100%` or `(1)`. Stores (clearing the fields of a base URL) are allowed.",
		Props: []string{"C02", "C15"},
		Floor: map[string]int{"v2": 2, "root": 2},
		Run:   runR025,
	})
}

func runR025(c *core.Ctx) {
	const rel = "restli"
	p := c.M.Pkg(rel)
	inf := p.TypesInfo
	reads, escaped := 0, 0
	for _, file := range p.Syntax {
		if strings.HasSuffix(c.M.Fset.File(file.Pos()).Name(), "_test.go") {
			continue
		}
		par := core.Parents(file)
		ast.Inspect(file, func(x ast.Node) bool {
			switch y := x.(type) {
			case *ast.CallExpr:
				if f := core.Callee(inf, y); f != nil && core.IsMethod(f, "net/url", "URL", "EscapedPath") {
					escaped++
					c.OK(rel, enclosingFuncName(file, y.Pos()), fmt.Sprintf("path read #%d uses EscapedPath()", escaped), y.Pos(), "")
				}
			case *ast.SelectorExpr:
				fv, ok := core.ObjOf(inf, y).(*types.Var)
				if !ok || !fv.IsField() || fv.Pkg() == nil || fv.Pkg().Path() != "net/url" || core.NameOf(fv) != "Path" {
					return true
				}
				// a store?
				if as, ok := par[y].(*ast.AssignStmt); ok {
					for _, l := range as.Lhs {
						if l == ast.Expr(y) {
							return true
						}
					}
				}
				reads++
				c.Bad(rel, enclosingFuncName(file, y.Pos()), fmt.Sprintf("no read of URL.%s #%d", core.NameOf(fv), reads), y.Pos(),
					"reads "+core.ExprString(y)+": the decoded path reaches routing / key decoding instead of EscapedPath()")
			}
			return true
		})
	}
	if escaped == 0 {
		c.Unknown(rel, "-", "EscapedPath() call sites", token.NoPos, "none found: where does the server take the request path from?")
	}
}

func init() {
	core.Register(&core.Rule{
		ID:    "R15.5",
		Title: "the root resource is matched against the last, slash-normalised segment of the context path",
		Text: "In formatQueryUrl every strings.* call whose pattern mentions the root resource name is one of the enumerated idioms — LastIndex (with R15.3's boundary test), HasSuffix or TrimSuffix — and its subject derives from a strings.TrimSuffix(…, \"/\") / TrimRight(…, \"/\") result; " +
			"strings.Index / Contains / HasPrefix / TrimPrefix / Replace on the root name are reported: a first-occurrence search is hidden by an earlier segment that shares the prefix (/searcher/search), and matching before the trailing slash is removed misses /api/search/. " +
			"Comparison of whole segments (== against elements of strings.Split) is accepted as well.",
		Props: []string{"C15"},
		Floor: map[string]int{"v2": 1, "root": 1},
		Run:   runR155,
	})
	core.Register(&core.Rule{
		ID:    "R15.6",
		Title: "the resolver's URL is copied, never written through",
		Text: "In formatQueryUrl and newRequest no assignment stores through a *url.URL (field store or *p = …): the base is cleared on a local struct copy (base := *hostUrl). " +
			"Resolvers hand out the same pointer on every call, so a store through it strips the context path from every later request (and races with concurrent ones).",
		Props: []string{"C15", "C17", "C02", "C09"},
		Floor: map[string]int{"v2": 1, "root": 1},
		Run:   runR156,
	})
}

func runR155(c *core.Ctx) {
	const rel = "restli"
	inf := info(c, rel)
	_, fd := mustDecl(c, rel, "(*Client).formatQueryUrl")
	// the root variable: assigned from rp.RootResource()
	var rootObj types.Object
	type def struct {
		rhs  ast.Expr
		end  token.Pos
		stmt ast.Stmt
	}
	r155par := core.Parents(fd)
	defs := map[types.Object][]def{}
	ast.Inspect(fd.Body, func(x ast.Node) bool {
		if as, ok := x.(*ast.AssignStmt); ok && len(as.Rhs) == 1 && len(as.Lhs) > 1 {
			// v, ok := strings.CutSuffix(x, "/"): the first result derives from the call
			if o := core.ObjOf(inf, as.Lhs[0]); o != nil {
				defs[o] = append(defs[o], def{as.Rhs[0], as.End(), as})
			}
		}
		if as, ok := x.(*ast.AssignStmt); ok && len(as.Lhs) == len(as.Rhs) {
			for i, l := range as.Lhs {
				o := core.ObjOf(inf, l)
				if o == nil {
					continue
				}
				defs[o] = append(defs[o], def{as.Rhs[i], as.End(), as})
				if call, ok := core.Unparen(as.Rhs[i]).(*ast.CallExpr); ok {
					if f := core.Callee(inf, call); f != nil && core.NameOf(f) == "RootResource" {
						rootObj = o
					}
				}
			}
		}
		return true
	})
	if rootObj == nil {
		c.Unknown(rel, "(*Client).formatQueryUrl", "root resource variable", fd.Pos(), "no local assigned from RootResource()")
		return
	}
	// normalised(e, at): e — evaluated at position at — derives from a TrimSuffix(…, "/") result; only definitions whose
	// statement is complete before `at` count (the match may sit inside the very assignment that normalises later)
	var normalised func(e ast.Expr, depth int, at token.Pos) bool
	normalised = func(e ast.Expr, depth int, at token.Pos) bool {
		found := false
		ast.Inspect(e, func(x ast.Node) bool {
			switch y := x.(type) {
			case *ast.CallExpr:
				f := core.Callee(inf, y)
				if (core.IsFunc(f, "strings", "TrimSuffix") || core.IsFunc(f, "strings", "TrimRight") || core.IsFunc(f, "strings", "CutSuffix")) && len(y.Args) == 2 {
					if v := core.ConstOf(inf, y.Args[1]); v != nil && v.ExactString() == `"/"` {
						found = true
					}
				}
			case *ast.Ident:
				if o := inf.Uses[y]; o != nil && depth < 4 {
					for _, d := range defs[o] {
						if d.end > at {
							continue
						}
						if normalised(d.rhs, depth+1, d.end) {
							found = true
						}
						// the trailing slash dropped by hand: x = x[:len(x)-1] under strings.HasSuffix(x, "/")
						if sl, ok := core.Unparen(d.rhs).(*ast.SliceExpr); ok && sl.Low == nil && sl.High != nil && core.ObjOf(inf, sl.X) == o && d.stmt != nil {
							if be, ok := core.Unparen(sl.High).(*ast.BinaryExpr); ok && be.Op == token.SUB {
								lc, isCall := core.Unparen(be.X).(*ast.CallExpr)
								cv := core.ConstOf(inf, be.Y)
								if isCall && len(lc.Args) == 1 && core.ObjOf(inf, lc.Args[0]) == o && cv != nil && cv.ExactString() == "1" {
									if core.GuardedByFact(inf, r155par, d.stmt, func(f core.Fact) bool {
										call, ok := core.Unparen(f.Expr).(*ast.CallExpr)
										if !ok || !f.Val || len(call.Args) != 2 || !core.IsFunc(core.Callee(inf, call), "strings", "HasSuffix") {
											return false
										}
										v := core.ConstOf(inf, call.Args[1])
										return core.ObjOf(inf, call.Args[0]) == o && v != nil && v.ExactString() == `"/"`
									}, nil) {
										found = true
									}
								}
							}
						}
					}
				}
			}
			return !found
		})
		return found
	}
	// the root name reaches a pattern directly or through locals derived from it (rootSegment := "/" + root)
	var mentionsVia func(e ast.Expr, depth int) bool
	mentionsVia = func(e ast.Expr, depth int) bool {
		found := false
		ast.Inspect(e, func(x ast.Node) bool {
			if id, ok := x.(*ast.Ident); ok {
				o := inf.Uses[id]
				if o == rootObj {
					found = true
				} else if o != nil && depth < 3 {
					for _, d := range defs[o] {
						if mentionsVia(d.rhs, depth+1) {
							found = true
						}
					}
				}
			}
			return !found
		})
		return found
	}
	n := 0
	ast.Inspect(fd.Body, func(x ast.Node) bool {
		call, ok := x.(*ast.CallExpr)
		if !ok {
			return true
		}
		f := core.Callee(inf, call)
		if f == nil || f.Pkg() == nil || f.Pkg().Path() != "strings" || len(call.Args) < 2 {
			return true
		}
		mentionsRoot := false
		for _, a := range call.Args[1:] {
			if mentionsVia(a, 0) {
				mentionsRoot = true
			}
		}
		if !mentionsRoot {
			return true
		}
		n++
		desc := fmt.Sprintf("root match #%d (strings.%s) looks at the last segment of a normalised path", n, core.NameOf(f))
		switch core.NameOf(f) {
		case "LastIndex", "HasSuffix", "TrimSuffix":
			c.Check(normalised(call.Args[0], 0, call.Pos()), rel, "(*Client).formatQueryUrl", desc, call.Pos(), "subject derives from TrimSuffix(…, \"/\")",
				"the subject "+core.ExprString(call.Args[0])+" still carries the resolver's trailing slash when the root name is matched: a base ending in /"+"<root>/ keeps its root segment and the request has it twice")
		default:
			c.Bad(rel, "(*Client).formatQueryUrl", desc, call.Pos(), "strings."+core.NameOf(f)+" does not anchor the match at the last segment: an earlier segment sharing the root's prefix (/searcher/search) hides the final one")
		}
		return true
	})
	// whole-segment comparison idiom
	ast.Inspect(fd.Body, func(x ast.Node) bool {
		if be, ok := x.(*ast.BinaryExpr); ok && (be.Op == token.EQL || be.Op == token.NEQ) {
			if core.ObjOf(inf, be.X) == rootObj || core.ObjOf(inf, be.Y) == rootObj {
				n++
				c.OK(rel, "(*Client).formatQueryUrl", fmt.Sprintf("root match #%d compares a whole segment", n), be.Pos(), "")
			}
		}
		return true
	})
	if n == 0 {
		c.Unknown(rel, "(*Client).formatQueryUrl", "root resource matching", fd.Pos(), "no expression matches the root resource name against the context path: how is a context ending in the root resource handled?")
	}
}

func runR156(c *core.Ctx) {
	const rel = "restli"
	inf := info(c, rel)
	for _, name := range []string{"(*Client).formatQueryUrl", "newRequest"} {
		_, fd := mustDecl(c, rel, name)
		var problems []string
		stores := 0
		ast.Inspect(fd.Body, func(x ast.Node) bool {
			as, ok := x.(*ast.AssignStmt)
			if !ok {
				return true
			}
			for _, l := range as.Lhs {
				var through ast.Expr
				switch t := core.Unparen(l).(type) {
				case *ast.StarExpr:
					through = t.X
				case *ast.SelectorExpr:
					if fv, ok := core.ObjOf(inf, t).(*types.Var); ok && fv.IsField() {
						through = t.X
						stores++
					}
				}
				if through == nil {
					continue
				}
				if pt, ok := inf.Types[through].Type.(*types.Pointer); ok {
					if nn := namedOf(pt.Elem()); nn != nil && nn.Obj().Pkg() != nil && nn.Obj().Pkg().Path() == "net/url" && core.NameOf(nn.Obj()) == "URL" {
						// a pointer this function created itself (url.Parse result, &local) is its own
						if o := core.ObjOf(inf, through); o != nil && ownedURL(inf, fd, o) {
							continue
						}
						problems = append(problems, c.M.Position(l.Pos())+": "+core.ExprString(l)+" stores through a *url.URL this function did not create")
					}
				}
			}
			return true
		})
		c.Check(len(problems) == 0, rel, name, "no store through a URL pointer obtained from elsewhere", fd.Pos(), fmt.Sprintf("%d field stores inspected", stores), strings.Join(problems, "; "))
	}
}

// ownedURL: every assignment to o in fd is from url.Parse / (*URL).Parse / &local / new.
func ownedURL(inf *types.Info, fd *ast.FuncDecl, o types.Object) bool {
	n, ok := 0, true
	ast.Inspect(fd.Body, func(x ast.Node) bool {
		as, isAs := x.(*ast.AssignStmt)
		if !isAs {
			return true
		}
		for i, l := range as.Lhs {
			if core.ObjOf(inf, l) != o {
				continue
			}
			n++
			var rhs ast.Expr
			if len(as.Rhs) == len(as.Lhs) {
				rhs = as.Rhs[i]
			} else if len(as.Rhs) == 1 {
				rhs = as.Rhs[0]
			}
			good := false
			switch r := core.Unparen(rhs).(type) {
			case *ast.CallExpr:
				f := core.Callee(inf, r)
				if core.IsFunc(f, "net/url", "Parse") || core.IsFunc(f, "net/url", "ParseRequestURI") || (f != nil && core.NameOf(f) == "formatQueryUrl") {
					good = true
				}
				if id, isId := core.Unparen(r.Fun).(*ast.Ident); isId && id.Name == "new" {
					good = true
				}
			case *ast.UnaryExpr:
				if r.Op == token.AND {
					good = true
				}
			}
			if !good {
				ok = false
			}
		}
		return true
	})
	return ok && n > 0
}

func init() {
	core.Register(&core.Rule{
		ID:    "R17.7",
		Title: "pooled objects do not outlive their Put",
		Text: "In every non-test function of the module that hands a local object to (*sync.Pool).Put (directly or deferred), nothing that aliases the object — the object itself, a field of reference type, the result of a method on it that returns a slice, pointer, map or interface (bytes.Buffer.Bytes), a slice of those — " +
			"is returned, assigned to a result variable, or stored outside the function's own locals. A later Get hands the same memory to another request, which then overwrites what the first caller still holds. " +
			"A synthetic positive control (a function returning buf.Bytes() of a pooled buffer) must be recognised on every run.",
		Props: []string{"C17", "C14", "C02"},
		Floor: map[string]int{"v2": 1, "root": 1},
		Run:   runR177,
	})
}

// pooledEscapes lists the escapes of pooled objects in one function body.
func pooledEscapes(fset interface {
	Position(token.Pos) token.Position
}, eng *aliasEngine, inf *types.Info, ftype *ast.FuncType, body *ast.BlockStmt) (puts int, problems []string) {
	pooled := map[types.Object]bool{}
	ast.Inspect(body, func(x ast.Node) bool {
		if call, ok := x.(*ast.CallExpr); ok && len(call.Args) == 1 {
			if f := core.Callee(inf, call); f != nil && core.IsMethod(f, "sync", "Pool", "Put") {
				puts++
				if o := core.ObjOf(inf, call.Args[0]); o != nil {
					pooled[o] = true
				}
			}
		}
		return true
	})
	if len(pooled) == 0 {
		return puts, nil
	}
	st := eng.flow(inf, ftype, body, pooled, 0)
	alias := st.alias
	isOwnLocal := st.isOwnLocal
	seen := map[string]bool{}
	report := func(pos token.Pos, msg string) {
		m := fmt.Sprintf("%s:%d: %s", shortFile(fset.Position(pos).Filename), fset.Position(pos).Line, msg)
		if !seen[m] {
			seen[m] = true
			problems = append(problems, m)
		}
	}
	ast.Inspect(body, func(x ast.Node) bool {
		switch y := x.(type) {
		case *ast.FuncLit:
			return false
		case *ast.ReturnStmt:
			for _, r := range y.Results {
				if alias(r) {
					report(r.Pos(), "returns "+core.ExprString(r)+", which aliases an object handed back to the pool")
				}
			}
			if len(y.Results) == 0 {
				for o := range st.results {
					if st.aliases[o] {
						report(y.Pos(), "returns the named result "+core.NameOf(o)+", which aliases an object handed back to the pool")
					}
				}
			}
		case *ast.AssignStmt:
			if len(y.Lhs) != len(y.Rhs) {
				if len(y.Rhs) == 1 {
					if call, ok := core.Unparen(y.Rhs[0]).(*ast.CallExpr); ok {
						ra := st.callResults(call)
						for i, l := range y.Lhs {
							if _, own := isOwnLocal(l); !own && ra[i] {
								if id, ok := core.Unparen(l).(*ast.Ident); ok && id.Name == "_" {
									continue
								}
								report(l.Pos(), core.ExprString(l)+" receives a result of "+core.ExprString(call.Fun)+" that aliases an object handed back to the pool")
							}
						}
					}
				}
				return true
			}
			for i, l := range y.Lhs {
				if _, own := isOwnLocal(l); !own && alias(y.Rhs[i]) {
					if id, ok := core.Unparen(l).(*ast.Ident); ok && id.Name == "_" {
						continue
					}
					report(l.Pos(), core.ExprString(l)+" = "+core.ExprString(y.Rhs[i])+" keeps memory of an object handed back to the pool")
				}
			}
		}
		return true
	})
	return puts, problems
}

func shortFile(name string) string {
	if i := strings.LastIndex(name, "/"); i >= 0 {
		return name[i+1:]
	}
	return name
}

func runR177(c *core.Ctx) {
	eng := &aliasEngine{mod: c.M, memo: map[*types.Func]map[int]map[int]bool{}, inprog: map[*types.Func]bool{}}
	funcs, puts := 0, 0
	for _, p := range c.M.Roots {
		inf := p.TypesInfo
		rel := c.M.Rel(p.PkgPath)
		for _, file := range p.Syntax {
			if strings.HasSuffix(c.M.Fset.File(file.Pos()).Name(), "_test.go") {
				continue
			}
			for _, d := range file.Decls {
				fd, ok := d.(*ast.FuncDecl)
				if !ok || fd.Body == nil {
					continue
				}
				funcs++
				n, problems := pooledEscapes(c.M.Fset, eng, inf, fd.Type, fd.Body)
				puts += n
				if n > 0 {
					c.Check(len(problems) == 0, rel, core.DeclName(fd), "nothing aliasing a pooled object leaves the function", fd.Pos(), fmt.Sprintf("%d Put calls", n), strings.Join(problems, "; "))
				}
			}
		}
	}
	c.OK("-", "-", "functions scanned for sync.Pool.Put", token.NoPos, fmt.Sprintf("%d functions, %d Put calls", funcs, puts))
	// positive control
	const ctl = `package ctl
import ("bytes"; "sync")
var pool = sync.Pool{New: func() any { return new(bytes.Buffer) }}
func leak(p []byte) (out []byte) {
	b := pool.Get().(*bytes.Buffer)
	b.Reset()
	defer pool.Put(b)
	b.Write(p)
	out = b.Bytes()
	return out
}
func fine(p []byte) string {
	b := pool.Get().(*bytes.Buffer)
	b.Reset()
	defer pool.Put(b)
	b.Write(p)
	return b.String()
}`
	f, err := parser.ParseFile(c.M.Fset, "pool_control.go", ctl, 0)
	if err != nil {
		c.Unknown("-", "-", "positive control", token.NoPos, err.Error())
		return
	}
	inf := &types.Info{Types: map[ast.Expr]types.TypeAndValue{}, Defs: map[*ast.Ident]types.Object{}, Uses: map[*ast.Ident]types.Object{}, Selections: map[*ast.SelectorExpr]*types.Selection{}}
	imp := importerFunc(func(path string) (*types.Package, error) {
		if p := c.M.AllByPath[path]; p != nil && p.Types != nil {
			return p.Types, nil
		}
		return nil, fmt.Errorf("package %s not in the loaded closure", path)
	})
	if _, err := (&types.Config{Importer: imp}).Check("ctl", c.M.Fset, []*ast.File{f}, inf); err != nil {
		c.Unknown("-", "-", "positive control", token.NoPos, "control does not type-check: "+err.Error())
		return
	}
	got := map[string]int{}
	for _, d := range f.Decls {
		if fd, ok := d.(*ast.FuncDecl); ok && fd.Body != nil {
			_, problems := pooledEscapes(c.M.Fset, &aliasEngine{memo: map[*types.Func]map[int]map[int]bool{}, inprog: map[*types.Func]bool{}}, inf, fd.Type, fd.Body)
			got[fd.Name.Name] = len(problems)
		}
	}
	c.Check(got["leak"] > 0 && got["fine"] == 0, "-", "-", "positive control: a pooled buffer's Bytes() escaping is recognised, String() is not reported", token.NoPos,
		fmt.Sprintf("leak=%d fine=%d", got["leak"], got["fine"]), fmt.Sprintf("control verdicts leak=%d fine=%d", got["leak"], got["fine"]))
}

type importerFunc func(path string) (*types.Package, error)

func (f importerFunc) Import(path string) (*types.Package, error) { return f(path) }

func init() {
	core.Register(&core.Rule{
		ID:    "R17.8",
		Title: "request-time closures write no variable captured at registration time",
		Text: "In package restli every function literal that takes a *RequestContext, *http.Request or http.ResponseWriter (code that runs once per request, concurrently) " +
			"never assigns, increments, takes the address of, or decodes into a variable declared outside itself (one instance shared by every request to that route): " +
			"such a variable makes one request observe another's parameters and is a data race. Reads of captured configuration are fine.",
		Props: []string{"C17", "C02"},
		Floor: map[string]int{"v2": 10, "root": 10},
		Run:   runR178,
	})
}

func runR178(c *core.Ctx) {
	const rel = "restli"
	p := c.M.Pkg(rel)
	inf := p.TypesInfo
	isRequestScoped := func(ft *ast.FuncType) bool {
		if ft.Params == nil {
			return false
		}
		for _, f := range ft.Params.List {
			t := inf.Types[f.Type].Type
			if t == nil {
				continue
			}
			s := t.String()
			if strings.HasSuffix(s, "restli.RequestContext") || s == "*net/http.Request" || s == "net/http.ResponseWriter" {
				return true
			}
		}
		return false
	}
	n := 0
	for _, file := range p.Syntax {
		if strings.HasSuffix(c.M.Fset.File(file.Pos()).Name(), "_test.go") {
			continue
		}
		var visit func(node ast.Node, inRequest bool)
		visit = func(node ast.Node, inRequest bool) {
			ast.Inspect(node, func(x ast.Node) bool {
				fl, ok := x.(*ast.FuncLit)
				if !ok || x == node {
					return true
				}
				if inRequest || !isRequestScoped(fl.Type) {
					visit(fl.Body, inRequest)
					return false
				}
				n++
				// fl is an outermost request-scoped closure
				captured := func(e ast.Expr) types.Object {
					r := rootIdent(e)
					if r == nil {
						return nil
					}
					v, ok := inf.Uses[r].(*types.Var)
					if !ok || v.IsField() || v.Pkg() == nil || v.Parent() == v.Pkg().Scope() {
						return nil // package-level state is R17.1's business
					}
					if core.ObjPos(v) >= fl.Pos() && core.ObjPos(v) <= fl.End() {
						return nil
					}
					return v
				}
				var problems []string
				ast.Inspect(fl.Body, func(y ast.Node) bool {
					switch z := y.(type) {
					case *ast.AssignStmt:
						if z.Tok == token.DEFINE {
							return true
						}
						for _, l := range z.Lhs {
							if _, isIdent := core.Unparen(l).(*ast.Ident); !isIdent {
								// a store through a captured pointer/map/slice: shared unless the base is request-local
								if v := captured(l); v != nil && storeThroughReference(inf, l) {
									problems = append(problems, c.M.Position(l.Pos())+": stores into "+core.ExprString(l)+" through the captured "+core.NameOf(v))
								}
								continue
							}
							if v := captured(l); v != nil {
								problems = append(problems, c.M.Position(l.Pos())+": assigns the captured variable "+core.NameOf(v)+" (one instance for every request)")
							}
						}
					case *ast.IncDecStmt:
						if v := captured(z.X); v != nil {
							problems = append(problems, c.M.Position(z.Pos())+": increments the captured variable "+core.NameOf(v))
						}
					case *ast.UnaryExpr:
						if z.Op == token.AND {
							if _, isLit := core.Unparen(z.X).(*ast.CompositeLit); !isLit {
								if v := captured(z.X); v != nil {
									problems = append(problems, c.M.Position(z.Pos())+": takes the address of the captured variable "+core.NameOf(v))
								}
							}
						}
					}
					return true
				})
				c.Check(len(problems) == 0, rel, enclosingFuncName(file, fl.Pos()), fmt.Sprintf("request closure #%d writes only its own variables", ordinalIn(file, fl)), fl.Pos(), "", strings.Join(dedupe(problems), "; "))
				return false
			})
		}
		visit(file, false)
	}
	if n == 0 {
		c.Unknown(rel, "-", "request-scoped closures", token.NoPos, "none found")
	}
}

func init() {
	core.Register(&core.Rule{
		ID:    "R16.7",
		Title: "complex keys are recognised before simple keys",
		Text: "In NewBatchKeySet's type switch the ComplexKey[K] case precedes the SimpleKey[K] case. Generated complex keys carry both method sets (Equals/ComputeHash over key and $params, ComplexKeyEquals/ComputeComplexKeyHash over the key part only; confirmed in corpus t-ckey), " +
			"and a type switch takes the first matching case: with SimpleKey first, keys equal up to $params are no longer duplicates and response keys (which carry no $params) are not found.",
		Props: []string{"C16"},
		Floor: map[string]int{"v2": 1, "root": 1},
		Run:   runR167,
	})
}

func runR167(c *core.Ctx) {
	const rel = "restli/batchkeyset"
	inf := info(c, rel)
	_, fd := mustDecl(c, rel, "NewBatchKeySet")
	ck, _ := mustObj(c, rel, "ComplexKey").(*types.TypeName)
	sk, _ := mustObj(c, rel, "SimpleKey").(*types.TypeName)
	pos := map[*types.TypeName]int{}
	n := 0
	ast.Inspect(fd.Body, func(x ast.Node) bool {
		ts, ok := x.(*ast.TypeSwitchStmt)
		if !ok {
			return true
		}
		for i, cl := range ts.Body.List {
			for _, e := range cl.(*ast.CaseClause).List {
				if nn := namedOf(inf.Types[e].Type); nn != nil {
					if _, seen := pos[nn.Obj()]; !seen {
						pos[nn.Obj()] = i + 1
					}
				}
			}
		}
		n++
		return true
	})
	c.Check(n == 1 && pos[ck] > 0 && pos[sk] > 0 && pos[ck] < pos[sk], rel, "NewBatchKeySet", "the ComplexKey case precedes the SimpleKey case", fd.Pos(),
		fmt.Sprintf("ComplexKey is case %d, SimpleKey is case %d", pos[ck], pos[sk]),
		fmt.Sprintf("type switches=%d, ComplexKey is case %d, SimpleKey is case %d: a complex key is treated as a simple key and compared including $params", n, pos[ck], pos[sk]))
}

func init() {
	core.Register(&core.Rule{
		ID:    "R06.7",
		Title: "only the outermost record is at input start",
		Text: "Every implementation of rawReader.atInputStart is either position-based (compares the cursor with 0 / asks the lexer, so it turns false as soon as anything is consumed) or flag-based; " +
			"for a flag-based reader every call of the element callback in its ReadMap and ReadArray is dominated by an assignment of false to the flag. " +
			"Otherwise a nested record believes it is the outermost one, raises the missing-fields error as soon as it ends, and the fields after it are neither decoded nor reported.",
		Props: []string{"C06"},
		Floor: map[string]int{"v2": 4, "root": 4},
		Run:   runR067,
	})
}

func runR067(c *core.Ctx) {
	const rel = "restlicodec"
	inf := info(c, rel)
	n := 0
	for _, fd := range c.M.FuncDecls(rel) {
		if fd.Body == nil || fd.Recv == nil || fd.Name.Name != "atInputStart" {
			continue
		}
		n++
		name := core.DeclName(fd)
		recv := recvObj(inf, fd)
		// shape of the single return
		rets := core.ReturnsIn(fd.Body)
		if len(rets) != 1 || len(rets[0].Results) != 1 {
			c.Unknown(rel, name, "atInputStart has a recognised shape", fd.Pos(), "not a single return expression")
			continue
		}
		res := core.Unparen(rets[0].Results[0])
		var flag *types.Var
		switch x := res.(type) {
		case *ast.BinaryExpr:
			if v := core.ConstOf(inf, x.Y); x.Op == token.EQL && v != nil && v.ExactString() == "0" {
				c.OK(rel, name, "atInputStart is position-based", fd.Pos(), core.ExprString(res))
				continue
			}
		case *ast.CallExpr:
			if f := core.Callee(inf, x); f != nil && core.NameOf(f) == "IsStart" {
				c.OK(rel, name, "atInputStart is position-based", fd.Pos(), core.ExprString(res))
				continue
			}
			if f := core.Callee(inf, x); f != nil && core.NameOf(f) == "atInputStart" {
				c.OK(rel, name, "atInputStart delegates to the embedded reader", fd.Pos(), core.ExprString(res))
				continue
			}
		case *ast.SelectorExpr:
			if fv, ok := core.ObjOf(inf, x).(*types.Var); ok && fv.IsField() && rootIdent(x) != nil && inf.Uses[rootIdent(x)] == recv {
				flag = fv
			}
		case *ast.Ident:
			if v := core.ConstOf(inf, x); v != nil {
				c.OK(rel, name, "atInputStart is constant", fd.Pos(), core.ExprString(res))
				continue
			}
		}
		if flag == nil {
			c.Unknown(rel, name, "atInputStart has a recognised shape", fd.Pos(), "returns "+core.ExprString(res))
			continue
		}
		// flag-based: ReadMap / ReadArray of the same receiver type
		rt := strings.TrimSuffix(strings.TrimPrefix(name, "("), ").atInputStart")
		for _, m := range []string{"ReadMap", "ReadArray"} {
			mf := c.M.LookupFunc(rel, "("+rt+")."+m)
			if mf == nil {
				c.Unknown(rel, "("+rt+")."+m, "flag-based reader has the method", fd.Pos(), "not found")
				continue
			}
			md := c.M.Decl(mf)
			var cb types.Object
			if md.Type.Params != nil && len(md.Type.Params.List) == 1 && len(md.Type.Params.List[0].Names) == 1 {
				cb = inf.Defs[md.Type.Params.List[0].Names[0]]
			}
			calls, bad := 0, 0
			core.NewFlow(c.M, inf, md.Body).Run(&core.Automaton{
				Init: 0,
				Node: func(st int, node ast.Node) int {
					// calls of the callback in this node (evaluated before an assignment in the same statement takes effect)
					core.WalkNoFuncLit(node, func(y ast.Node) bool {
						if call, ok := y.(*ast.CallExpr); ok && core.ObjOf(inf, call.Fun) == cb && cb != nil {
							calls++
							if st != 1 {
								bad++
							}
						}
						return true
					})
					if as, ok := node.(*ast.AssignStmt); ok && len(as.Lhs) == len(as.Rhs) {
						for i, l := range as.Lhs {
							if sel, ok := core.Unparen(l).(*ast.SelectorExpr); ok && core.ObjOf(inf, sel) == flag {
								if v := core.ConstOf(inf, as.Rhs[i]); v != nil && v.ExactString() == "false" {
									st = 1
								} else {
									st = 0
								}
							}
						}
					}
					return st
				},
			})
			c.Check(calls > 0 && bad == 0, rel, "("+rt+")."+m, "the element callback runs with "+core.NameOf(flag)+" == false", md.Pos(), fmt.Sprintf("%d callback evaluations", calls),
				fmt.Sprintf("%d of %d evaluations of the callback are reachable without %s having been set to false: nested records report missing fields on their own", bad, calls, core.NameOf(flag)))
		}
	}
	if n < 3 {
		c.Unknown(rel, "-", "atInputStart implementations", token.NoPos, fmt.Sprintf("found %d", n))
	}
}

func init() {
	core.Register(&core.Rule{
		ID:    "R12.6",
		Title: "append never grows one object's slice into another variable",
		Text: "In the generator and runtime packages every `y = append(x, …)` either stores back into the operand it grew (y is x), or grows a slice this function owns (nil, a literal, make, a conversion, a local that was itself built that way, or a full-slice expression x[:n:n] that forces a copy). " +
			"`all := append(r.ReadOnlyFields, r.CreateOnlyFields...)` writes into the spare capacity of r.ReadOnlyFields; a later in-place sort or a second append through the original then rewrites the other list (the generated exclusion specs, required-field lists, key lists).",
		Props: []string{"C07", "C12", "C06", "C09"},
		Floor: map[string]int{"v2": 20, "root": 10},
		Run:   runR126,
	})
}

func runR126(c *core.Ctx) {
	n := 0
	for _, p := range c.M.Roots {
		inf := p.TypesInfo
		rel := c.M.Rel(p.PkgPath)
		for _, file := range p.Syntax {
			fname := c.M.Fset.File(file.Pos()).Name()
			if strings.HasSuffix(fname, "_test.go") || strings.HasSuffix(fname, ".gr.go") {
				continue
			}
			for _, d := range file.Decls {
				fd, ok := d.(*ast.FuncDecl)
				if !ok || fd.Body == nil {
					continue
				}
				// locals owned by this function: defined from nil / literal / make / conversion / append of an owned operand
				owned := map[types.Object]bool{}
				var ownedExpr func(e ast.Expr) bool
				ownedExpr = func(e ast.Expr) bool {
					switch y := core.Unparen(e).(type) {
					case *ast.Ident:
						return core.IsNil(inf, y) || owned[core.ObjOf(inf, y)]
					case *ast.CompositeLit:
						return true
					case *ast.SliceExpr:
						if y.Slice3 {
							return true
						}
						return ownedExpr(y.X)
					case *ast.CallExpr:
						if tv, ok := inf.Types[y.Fun]; ok && tv.IsType() {
							return len(y.Args) == 1 && (core.IsNil(inf, y.Args[0]) || ownedExpr(y.Args[0]) || isStringType(inf, y.Args[0]))
						}
						if id, ok := core.Unparen(y.Fun).(*ast.Ident); ok {
							switch id.Name {
							case "make":
								return true
							case "append":
								return len(y.Args) > 0 && ownedExpr(y.Args[0])
							}
						}
						// a call result is a fresh value as far as this function is concerned (callee's business) — unless the
						// callee is a function of the module that can hand out one of its receiver's / parameters' slices as is
						if cf := core.Callee(inf, y); cf != nil && returnsForeignSlice(c, cf) {
							return false
						}
						return true
					}
					return false
				}
				for changed := true; changed; {
					changed = false
					ast.Inspect(fd.Body, func(x ast.Node) bool {
						switch y := x.(type) {
						case *ast.AssignStmt:
							if len(y.Lhs) != len(y.Rhs) {
								return true
							}
							for _, l := range y.Lhs {
								id, ok := core.Unparen(l).(*ast.Ident)
								if !ok {
									continue
								}
								o := core.ObjOf(inf, id)
								if o == nil || owned[o] || core.ObjPos(o) < fd.Body.Pos() || core.ObjPos(o) > fd.Body.End() {
									continue
								}
								// every definition of o must be owned
								if allDefsOwned(inf, fd, o, ownedExpr) {
									owned[o] = true
									changed = true
								}
							}
						case *ast.ValueSpec:
							for i, nm := range y.Names {
								o := inf.Defs[nm]
								if o != nil && !owned[o] && (len(y.Values) == 0 || (i < len(y.Values) && ownedExpr(y.Values[i]))) && allDefsOwned(inf, fd, o, ownedExpr) {
									owned[o] = true
									changed = true
								}
							}
						}
						return true
					})
				}
				ast.Inspect(fd.Body, func(x ast.Node) bool {
					as, ok := x.(*ast.AssignStmt)
					if !ok || len(as.Lhs) != len(as.Rhs) {
						return true
					}
					for i, r := range as.Rhs {
						call, ok := core.Unparen(r).(*ast.CallExpr)
						if !ok || len(call.Args) == 0 {
							continue
						}
						if id, ok := core.Unparen(call.Fun).(*ast.Ident); !ok || id.Name != "append" {
							continue
						} else if _, isB := inf.Uses[id].(*types.Builtin); !isB {
							continue
						}
						n++
						src := call.Args[0]
						base := core.Unparen(src)
						for {
							se, ok := base.(*ast.SliceExpr) // x = append(x[:i], …): the insert / delete idiom still stores back
							if !ok {
								break
							}
							base = core.Unparen(se.X)
						}
						okSite := core.SameExpr(inf, as.Lhs[i], src) || core.SameExpr(inf, as.Lhs[i], base) || ownedExpr(src)
						// `b := m[k]; …; m[k] = append(b, v)`: the operand is a local that was loaded from the very place the result is
						// stored to (and is assigned nowhere else): that is the store-back, spelled through a local
						if id, isId := base.(*ast.Ident); isId && !okSite {
							if o := core.ObjOf(inf, id); o != nil && core.ObjPos(o) >= fd.Body.Pos() && core.ObjPos(o) <= fd.Body.End() {
								defs, same := 0, 0
								ast.Inspect(fd.Body, func(z ast.Node) bool {
									if das, ok := z.(*ast.AssignStmt); ok {
										for k, dl := range das.Lhs {
											if did, ok := core.Unparen(dl).(*ast.Ident); ok && core.ObjOf(inf, did) == o {
												defs++
												var rhs ast.Expr
												if len(das.Lhs) == len(das.Rhs) {
													rhs = das.Rhs[k]
												} else if k == 0 && len(das.Rhs) == 1 {
													rhs = das.Rhs[0]
												}
												if rhs != nil && core.SameExpr(inf, rhs, as.Lhs[i]) {
													same++
												}
											}
										}
									}
									return true
								})
								if defs == 1 && same == 1 {
									okSite = true
								}
							}
						}
						why := core.ExprString(as.Lhs[i]) + " = append(" + core.ExprString(src) + ", …): the result may share the backing array of " + core.ExprString(src) + ", which this function does not own; writes through either overwrite the other"
						// a truncating append (append(x[:k], …)) overwrites the elements from k on in place.  Through a local that
						// merely aliases somebody else's slice — a variable loaded from a call that returns its receiver's field, or
						// the field of a struct value copied with `out := *p` — that rewrites the other holder's elements while its
						// length stays what it was.
						if _, truncating := core.Unparen(src).(*ast.SliceExpr); truncating && okSite && !ownedExpr(base) {
							if id, isId := base.(*ast.Ident); isId {
								if o := core.ObjOf(inf, id); o != nil && core.ObjPos(o) >= fd.Body.Pos() && core.ObjPos(o) <= fd.Body.End() && aliasesCallResult(inf, fd, o, func(cf *types.Func) bool { return returnsForeignSlice(c, cf) }) {
									okSite = false
									why = core.ExprString(as.Lhs[i]) + " = append(" + core.ExprString(src) + ", …) truncates and rewrites in place a slice that " + id.Name + " only aliases (it comes from a function that returns its receiver's own slice): the owner's elements are overwritten"
								}
							}
							if sel, isSel := base.(*ast.SelectorExpr); isSel {
								if r := rootIdent(sel); r != nil {
									if o := inf.Uses[r]; o != nil && shallowStructCopy(inf, fd, o) {
										okSite = false
										why = core.ExprString(as.Lhs[i]) + " = append(" + core.ExprString(src) + ", …) rewrites in place the elements of a slice that the struct copy " + r.Name + " shares with the value it was copied from"
									}
								}
							}
						}
						c.Check(okSite, rel, core.DeclName(fd), fmt.Sprintf("append #%d stores back into its operand or grows an owned slice", ordinal(fd, call)), call.Pos(), "", why)
					}
					return true
				})
			}
		}
	}
	if n == 0 {
		c.Unknown("-", "-", "append call sites", token.NoPos, "none found")
	}
}

// returnsForeignSlice: f is a function of the module with a slice result, one of whose returns yields a field of its
// receiver / a parameter, or a parameter itself, as is (no copy).
func returnsForeignSlice(c *core.Ctx, f *types.Func) bool {
	f = f.Origin()
	if v, ok := foreignSliceMemo.Load(f); ok {
		return v.(bool)
	}
	res := false
	defer func() { foreignSliceMemo.Store(f, res) }()
	if f.Pkg() == nil || !c.M.InModule(f.Pkg()) {
		return false
	}
	fd := c.M.Decl(f)
	if fd == nil || fd.Body == nil {
		return false
	}
	inf := c.M.InfoFor(fd.Pos())
	if inf == nil {
		return false
	}
	params := map[types.Object]bool{}
	if fd.Recv != nil {
		for _, fl := range fd.Recv.List {
			for _, nm := range fl.Names {
				params[inf.Defs[nm]] = true
			}
		}
	}
	for _, fl := range fd.Type.Params.List {
		for _, nm := range fl.Names {
			params[inf.Defs[nm]] = true
		}
	}
	for _, r := range core.ReturnsIn(fd.Body) {
		for _, e := range r.Results {
			tv, ok := inf.Types[e]
			if !ok || tv.Type == nil {
				continue
			}
			if _, isSlice := tv.Type.Underlying().(*types.Slice); !isSlice {
				continue
			}
			switch y := core.Unparen(e).(type) {
			case *ast.SelectorExpr:
				if fv, ok := core.ObjOf(inf, y).(*types.Var); ok && fv.IsField() {
					if rid := rootIdent(y); rid != nil && params[inf.Uses[rid]] {
						res = true
					}
				}
			case *ast.Ident:
				if params[inf.Uses[y]] {
					res = true
				}
			}
		}
	}
	return res
}

var foreignSliceMemo sync.Map

// aliasesCallResult: some assignment of the local o takes the result of a call for which pred holds.
func aliasesCallResult(inf *types.Info, fd *ast.FuncDecl, o types.Object, pred func(*types.Func) bool) bool {
	found := false
	ast.Inspect(fd.Body, func(x ast.Node) bool {
		as, ok := x.(*ast.AssignStmt)
		if !ok || len(as.Lhs) != len(as.Rhs) {
			return true
		}
		for i, l := range as.Lhs {
			if id, isId := core.Unparen(l).(*ast.Ident); isId && core.ObjOf(inf, id) == o {
				if call, isCall := core.Unparen(as.Rhs[i]).(*ast.CallExpr); isCall {
					if cf := core.Callee(inf, call); cf != nil && pred(cf) {
						found = true
					}
				}
			}
		}
		return true
	})
	return found
}

// shallowStructCopy: o is a local of struct type that is assigned a copy of another struct value (`out := *p`, `out = *p`,
// `out := other`).
func shallowStructCopy(inf *types.Info, fd *ast.FuncDecl, o types.Object) bool {
	if _, isStruct := o.Type().Underlying().(*types.Struct); !isStruct {
		return false
	}
	if core.ObjPos(o) < fd.Body.Pos() || core.ObjPos(o) > fd.Body.End() {
		return false
	}
	found := false
	ast.Inspect(fd.Body, func(x ast.Node) bool {
		as, ok := x.(*ast.AssignStmt)
		if !ok || len(as.Lhs) != len(as.Rhs) {
			return true
		}
		for i, l := range as.Lhs {
			if id, isId := core.Unparen(l).(*ast.Ident); isId && core.ObjOf(inf, id) == o {
				switch r := core.Unparen(as.Rhs[i]).(type) {
				case *ast.StarExpr:
					found = true
				case *ast.Ident:
					if !core.IsNil(inf, r) {
						found = true
					}
				case *ast.SelectorExpr, *ast.IndexExpr:
					found = true
				}
			}
		}
		return true
	})
	return found
}

func isStringType(inf *types.Info, e ast.Expr) bool {
	if tv, ok := inf.Types[e]; ok && tv.Type != nil {
		if b, ok := tv.Type.Underlying().(*types.Basic); ok && b.Info()&types.IsString != 0 {
			return true
		}
	}
	return false
}

func allDefsOwned(inf *types.Info, fd *ast.FuncDecl, o types.Object, ownedExpr func(ast.Expr) bool) bool {
	ok := true
	ast.Inspect(fd.Body, func(x ast.Node) bool {
		switch y := x.(type) {
		case *ast.AssignStmt:
			for i, l := range y.Lhs {
				if id, isId := core.Unparen(l).(*ast.Ident); isId && core.ObjOf(inf, id) == o {
					if len(y.Lhs) != len(y.Rhs) {
						ok = false
					} else if call, isCall := core.Unparen(y.Rhs[i]).(*ast.CallExpr); isCall && isAppendOf(inf, call, o) {
						// o = append(o, …) keeps ownership
					} else if !ownedExpr(y.Rhs[i]) {
						ok = false
					}
				}
			}
		case *ast.RangeStmt:
			if (y.Key != nil && core.ObjOf(inf, y.Key) == o) || (y.Value != nil && core.ObjOf(inf, y.Value) == o) {
				ok = false
			}
		}
		return ok
	})
	return ok
}

func isAppendOf(inf *types.Info, call *ast.CallExpr, o types.Object) bool {
	id, ok := core.Unparen(call.Fun).(*ast.Ident)
	return ok && id.Name == "append" && len(call.Args) > 0 && core.ObjOf(inf, call.Args[0]) == o
}

func init() {
	core.Register(&core.Rule{
		ID:    "R08.7",
		Title: "messages are arguments, never format strings",
		Text: "In package restli every call of a printf-like function (last two parameters `format string, args ...any`, name ending in f) passes a constant format string: text that comes from resource code, a panic value or the peer " +
			"(\"disk is 100% full\") concatenated into the format is re-interpreted (`%!f(MISSING)`) and the delivered message is no longer the error's message.",
		Props: []string{"C08"},
		Floor: map[string]int{"v2": 20, "root": 20},
		Run:   runR087,
	})
	core.Register(&core.Rule{
		ID: "R10.7", Generated: true,
		Title: "complex-key hash and equality look at the same part of the key",
		Text: "For every generated complex key, the receiver fields ComputeComplexKeyHash folds are a non-empty subset of the receiver fields ComplexKeyEquals compares (a method called on the whole receiver counts as all fields): " +
			"hashing $params while comparing the key part only puts equal keys into different buckets.",
		Props: []string{"C10", "C16"},
		Floor: map[string]int{"corpus": 1},
		Run:   runR107,
	})
	core.Register(&core.Rule{
		ID:    "R17.9",
		Title: "pooled objects are reset on the way in or on the way out",
		Text: "For every sync.Pool in the module: each value taken with Get is completely re-initialised by the statements right after the Get and / or by the statements right before every Put of that pool anywhere in the package: " +
			"a Reset/Truncate/Clear call, clear(x), x = x[:0], a delete-all loop, a whole-value assignment, or assignments (directly or through a method of the object) that together cover every field of the pooled struct, embedded structs field by field. " +
			"A deferred Put also runs on error and panic exits, where a writer still holds the fragment of a failed serialization; the next request then starts from that fragment. " +
			"In addition, when an alias of the pooled object was handed to another function, nothing may run after a non-deferred Put (the callee may have retained it: routing slices stored in the request context). " +
			"A synthetic positive control must be recognised on every run.",
		Props: []string{"C17", "C09", "C03", "C08", "C01", "C05", "C04", "C06", "C07", "C11", "C15", "C02", "C14", "C16"},
		Floor: map[string]int{"v2": 1, "root": 1},
		Run:   runR179,
	})
}

func runR087(c *core.Ctx) {
	const rel = "restli"
	p := c.M.Pkg(rel)
	inf := p.TypesInfo
	n := 0
	for _, file := range p.Syntax {
		if strings.HasSuffix(c.M.Fset.File(file.Pos()).Name(), "_test.go") {
			continue
		}
		ast.Inspect(file, func(x ast.Node) bool {
			call, ok := x.(*ast.CallExpr)
			if !ok {
				return true
			}
			f := core.Callee(inf, call)
			if f == nil || !strings.HasSuffix(core.NameOf(f), "f") {
				return true
			}
			sig, ok := f.Type().(*types.Signature)
			if !ok || !sig.Variadic() || sig.Params().Len() < 2 {
				return true
			}
			fi := sig.Params().Len() - 2
			if b, ok := sig.Params().At(fi).Type().Underlying().(*types.Basic); !ok || b.Info()&types.IsString == 0 {
				return true
			}
			if fi >= len(call.Args) {
				return true
			}
			n++
			fn := enclosingFuncName(file, call.Pos())
			// a printf-like wrapper forwarding its own format parameter is checked at its call sites
			if pv, ok := core.ObjOf(inf, call.Args[fi]).(*types.Var); ok {
				if efd := enclosingFuncDecl(file, call.Pos()); efd != nil {
					if ef, ok := inf.Defs[efd.Name].(*types.Func); ok && strings.HasSuffix(core.NameOf(ef), "f") {
						es := ef.Type().(*types.Signature)
						if es.Variadic() && es.Params().Len() >= 2 && es.Params().At(es.Params().Len()-2) == pv {
							// … provided the wrapper forwards it as received: a format extended with run-time text
							// (format += ": " + cause.Error()) is no longer the constant its callers passed
							var rewritten []string
							ast.Inspect(efd.Body, func(m ast.Node) bool {
								switch y := m.(type) {
								case *ast.AssignStmt:
									for _, l := range y.Lhs {
										if core.ObjOf(inf, l) == types.Object(pv) {
											rewritten = append(rewritten, c.M.Position(y.Pos()))
										}
									}
								case *ast.UnaryExpr:
									if y.Op == token.AND && core.ObjOf(inf, y.X) == types.Object(pv) {
										rewritten = append(rewritten, c.M.Position(y.Pos()))
									}
								}
								return true
							})
							c.Check(len(rewritten) == 0, rel, fn, fmt.Sprintf("format string of %s #%d is the wrapper's own format parameter", core.NameOf(f), ordinalIn(file, call)), call.Pos(), "",
								"the wrapper rewrites its format parameter at "+strings.Join(rewritten, ", ")+" before forwarding it: run-time text becomes part of the format and a % in it is interpreted as a verb")
							return true
						}
					}
				}
			}
			c.Check(core.ConstOf(inf, call.Args[fi]) != nil, rel, fn, fmt.Sprintf("format string of %s #%d is a constant", core.NameOf(f), ordinalIn(file, call)), call.Pos(), "",
				"the format argument "+core.ExprString(call.Args[fi])+" is built at run time: a % in the embedded text is interpreted as a verb and the message is altered")
			return true
		})
	}
	if n == 0 {
		c.Unknown(rel, "-", "printf-like call sites", token.NoPos, "none found")
	}
}

func runR107(c *core.Ctx) {
	if c.Corpus.Failure != "" {
		return
	}
	for _, g := range genModel(c) {
		h, eq := g.Methods["ComputeComplexKeyHash"], g.Methods["ComplexKeyEquals"]
		if h == nil && eq == nil {
			continue
		}
		if h == nil || eq == nil {
			c.Bad(g.Rel, g.Name, "complex key has both ComputeComplexKeyHash and ComplexKeyEquals", g.Spec.Pos(), "one of the two is missing")
			continue
		}
		inf := g.inf()
		fieldsOf := func(fd *ast.FuncDecl) (map[string]bool, bool) {
			recv := recvObj(inf, fd)
			out := map[string]bool{}
			for _, f := range recvSelFields(inf, recv, fd.Body) {
				out[f] = true
			}
			whole := false
			ast.Inspect(fd.Body, func(n ast.Node) bool {
				if call, ok := n.(*ast.CallExpr); ok {
					if sel, ok := core.Unparen(call.Fun).(*ast.SelectorExpr); ok {
						if id, ok := core.Unparen(sel.X).(*ast.Ident); ok && core.ObjOf(inf, id) == recv {
							if _, isMethod := core.ObjOf(inf, sel).(*types.Func); isMethod {
								whole = true
							}
						}
					}
					for _, a := range call.Args {
						if id, ok := core.Unparen(a).(*ast.Ident); ok && core.ObjOf(inf, id) == recv {
							whole = true
						}
					}
				}
				return true
			})
			return out, whole
		}
		hf, hWhole := fieldsOf(h)
		ef, eWhole := fieldsOf(eq)
		var problems []string
		if hWhole && !eWhole {
			problems = append(problems, "the hash is computed over the whole receiver (key and $params) while equality compares "+strings.Join(keysOf(ef), ", ")+" only")
		}
		for f := range hf {
			if !ef[f] && !eWhole {
				problems = append(problems, "field "+f+" is hashed but not compared")
			}
		}
		if len(hf) == 0 && !hWhole {
			problems = append(problems, "the hash folds no part of the key")
		}
		sort.Strings(problems)
		c.Check(len(problems) == 0, g.Rel, g.Name, "complex-key hash folds a subset of what complex-key equality compares", h.Pos(), strings.Join(keysOf(hf), ", "), strings.Join(problems, "; "))
	}
}

func keysOf(m map[string]bool) []string {
	var out []string
	for k := range m {
		out = append(out, k)
	}
	sort.Strings(out)
	return out
}

// pooledHygiene reports Get sites not followed by a reset (unless every Put is preceded by one) and code running
// after a non-deferred Put when an alias was handed out.
// poolCoverage describes how much of a pooled object a run of consecutive statements re-initialises.
type poolCoverage struct {
	full   bool
	fields map[string]bool // field paths ("lexer", "missingFieldsTracker.currentScope")
}

func (a poolCoverage) union(b poolCoverage) poolCoverage {
	out := poolCoverage{full: a.full || b.full, fields: map[string]bool{}}
	for k := range a.fields {
		out.fields[k] = true
	}
	for k := range b.fields {
		out.fields[k] = true
	}
	return out
}

func (a poolCoverage) intersect(b poolCoverage) poolCoverage {
	out := poolCoverage{full: a.full && b.full, fields: map[string]bool{}}
	if a.full {
		for k := range b.fields {
			out.fields[k] = true
		}
		return out
	}
	if b.full {
		for k := range a.fields {
			out.fields[k] = true
		}
		return out
	}
	for k := range a.fields {
		if b.fields[k] {
			out.fields[k] = true
		}
	}
	return out
}

// complete: every field of the pooled struct (struct-valued fields of the module: every field of theirs) is covered.
func (a poolCoverage) complete(m *core.Module, t types.Type) (bool, string) {
	if a.full {
		return true, ""
	}
	if p, ok := t.(*types.Pointer); ok {
		t = p.Elem()
	}
	st, ok := t.Underlying().(*types.Struct)
	if !ok {
		return false, "the value is not re-initialised"
	}
	var missing func(prefix string, st *types.Struct, depth int) string
	missing = func(prefix string, st *types.Struct, depth int) string {
		for i := 0; i < st.NumFields(); i++ {
			f := st.Field(i)
			path := prefix + core.NameOf(f)
			if a.fields[path] {
				continue
			}
			if inner, ok := f.Type().Underlying().(*types.Struct); ok && depth < 3 {
				if nn := namedOf(f.Type()); nn == nil || m == nil || m.InModule(nn.Obj().Pkg()) {
					if w := missing(path+".", inner, depth+1); w != "" {
						return w
					}
					continue
				}
			}
			return path
		}
		return ""
	}
	if w := missing("", st, 0); w != "" {
		return false, "field " + w + " keeps the value of the previous use"
	}
	return true, ""
}

// poolResetRun computes what the consecutive statements list[from], list[from+step], … re-initialise of object o; the run
// ends at the first statement that is not part of a re-initialisation of o.
func poolResetRun(m *core.Module, inf *types.Info, list []ast.Stmt, from, step int, o types.Object) poolCoverage {
	cov := poolCoverage{fields: map[string]bool{}}
	// path of a selector chain rooted at o ("" for o itself), ok=false when e is not rooted at o
	var pathOf func(e ast.Expr) (string, bool)
	pathOf = func(e ast.Expr) (string, bool) {
		switch x := core.Unparen(e).(type) {
		case *ast.Ident:
			return "", core.ObjOf(inf, x) == o
		case *ast.StarExpr:
			return pathOf(x.X)
		case *ast.SelectorExpr:
			if fv, ok := core.ObjOf(inf, x).(*types.Var); ok && fv.IsField() {
				if p, ok := pathOf(x.X); ok {
					// promoted fields: spell the embedded path out
					if sel := inf.Selections[x]; sel != nil && len(sel.Index()) > 1 {
						t := inf.Types[x.X].Type
						for _, i := range sel.Index()[:len(sel.Index())-1] {
							if pt, ok := t.(*types.Pointer); ok {
								t = pt.Elem()
							}
							st, ok := t.Underlying().(*types.Struct)
							if !ok {
								break
							}
							if p != "" {
								p += "."
							}
							p += core.NameOf(st.Field(i))
							t = st.Field(i).Type()
						}
					}
					if p != "" {
						p += "."
					}
					return p + core.NameOf(fv), true
				}
			}
		}
		return "", false
	}
	// what a method of the module assigns through its receiver (one level; calls on the receiver followed once)
	var viaMethod func(f *types.Func, prefix string, depth int)
	viaMethod = func(f *types.Func, prefix string, depth int) {
		if m == nil || f == nil || depth > 2 {
			return
		}
		fd := m.Decl(f.Origin())
		if fd == nil || fd.Body == nil || fd.Recv == nil || len(fd.Recv.List) != 1 || len(fd.Recv.List[0].Names) != 1 {
			return
		}
		minf := m.InfoFor(fd.Pos())
		if minf == nil {
			return
		}
		recv := minf.Defs[fd.Recv.List[0].Names[0]]
		for _, st := range fd.Body.List {
			sub := poolResetRun(m, minf, []ast.Stmt{st}, 0, 1, recv)
			if sub.full {
				if prefix == "" {
					cov.full = true
				} else {
					cov.fields[strings.TrimSuffix(prefix, ".")] = true
				}
			}
			for k := range sub.fields {
				cov.fields[prefix+k] = true
			}
		}
	}
	for i := from; i >= 0 && i < len(list); i += step {
		progressed := false
		switch y := list[i].(type) {
		case *ast.ExprStmt:
			call, ok := core.Unparen(y.X).(*ast.CallExpr)
			if !ok {
				break
			}
			if b, ok := core.ObjOf(inf, call.Fun).(*types.Builtin); ok && b.Name() == "clear" && len(call.Args) == 1 {
				if p, ok := pathOf(call.Args[0]); ok {
					if p == "" {
						cov.full = true
					} else {
						cov.fields[p] = true
					}
					progressed = true
				}
				break
			}
			if sel, ok := core.Unparen(call.Fun).(*ast.SelectorExpr); ok {
				if p, ok := pathOf(sel.X); ok {
					f := core.Callee(inf, call)
					switch {
					case sel.Sel.Name == "Reset" || sel.Sel.Name == "Truncate" || sel.Sel.Name == "Clear":
						if f != nil && (m == nil || !m.InModule(f.Pkg())) || f == nil {
							if p == "" {
								cov.full = true
							} else {
								cov.fields[p] = true
							}
							progressed = true
							break
						}
						fallthrough
					default:
						if f != nil && m != nil && m.InModule(f.Pkg()) {
							before := len(cov.fields)
							wasFull := cov.full
							pre := p
							if pre != "" {
								pre += "."
							}
							viaMethod(f, pre, 0)
							progressed = len(cov.fields) > before || cov.full != wasFull
						}
					}
				}
			}
		case *ast.AssignStmt:
			for j, l := range y.Lhs {
				if p, ok := pathOf(l); ok {
					_, isStar := core.Unparen(l).(*ast.StarExpr)
					switch {
					case p == "" && isStar:
						cov.full = true
						progressed = true
					case p == "":
						// o = o[:0] (a pooled slice)
						if len(y.Lhs) == len(y.Rhs) {
							if se, ok := core.Unparen(y.Rhs[j]).(*ast.SliceExpr); ok && se.Low == nil && se.High != nil {
								if cv := core.ConstOf(inf, se.High); cv != nil && cv.ExactString() == "0" {
									cov.full = true
									progressed = true
								}
							}
						}
					default:
						cov.fields[p] = true
						progressed = true
					}
				}
			}
		case *ast.RangeStmt:
			// for k := range o { delete(o, k) }
			if p, ok := pathOf(y.X); ok && len(y.Body.List) == 1 {
				if es, ok := y.Body.List[0].(*ast.ExprStmt); ok {
					if call, ok := core.Unparen(es.X).(*ast.CallExpr); ok {
						if b, ok := core.ObjOf(inf, call.Fun).(*types.Builtin); ok && b.Name() == "delete" {
							if p == "" {
								cov.full = true
							} else {
								cov.fields[p] = true
							}
							progressed = true
						}
					}
				}
			}
		}
		if !progressed {
			break
		}
	}
	return cov
}

// poolPutCoverage: per pool, what every Put of the package re-initialises right before it (nil entry: some Put resets nothing).
func poolPutCoverage(m *core.Module, inf *types.Info, bodies []*ast.BlockStmt) map[types.Object]*poolCoverage {
	out := map[types.Object]*poolCoverage{}
	for _, body := range bodies {
		par := core.Parents(body)
		ast.Inspect(body, func(x ast.Node) bool {
			call, ok := x.(*ast.CallExpr)
			if !ok || len(call.Args) != 1 {
				return true
			}
			if f := core.Callee(inf, call); f == nil || !core.IsMethod(f, "sync", "Pool", "Put") {
				return true
			}
			sel, ok := core.Unparen(call.Fun).(*ast.SelectorExpr)
			if !ok {
				return true
			}
			pool := rootIdentObj(inf, sel.X)
			if fv, ok := core.ObjOf(inf, sel.X).(*types.Var); ok {
				pool = fv
			}
			st := core.EnclosingStmt(par, call)
			list, idx := core.StmtListOf(par, st)
			cov := poolCoverage{fields: map[string]bool{}}
			if o := core.ObjOf(inf, call.Args[0]); o != nil && idx > 0 {
				cov = poolResetRun(m, inf, list, idx-1, -1, o)
			}
			if prev, ok := out[pool]; ok {
				c2 := prev.intersect(cov)
				out[pool] = &c2
			} else {
				out[pool] = &cov
			}
			return true
		})
	}
	return out
}

func pooledHygiene(fset interface {
	Position(token.Pos) token.Position
}, m *core.Module, inf *types.Info, body *ast.BlockStmt, putCov map[types.Object]*poolCoverage) (sites int, problems []string) {
	par := core.Parents(body)
	type getSite struct {
		o    types.Object
		stmt ast.Stmt
		pool types.Object
	}
	var gets []getSite
	type putSite struct {
		o        types.Object
		stmt     ast.Stmt
		deferred bool
		call     *ast.CallExpr
	}
	var puts []putSite
	ast.Inspect(body, func(x ast.Node) bool {
		call, ok := x.(*ast.CallExpr)
		if !ok {
			return true
		}
		f := core.Callee(inf, call)
		if f == nil {
			return true
		}
		switch {
		case core.IsMethod(f, "sync", "Pool", "Get"):
			st := core.EnclosingStmt(par, call)
			var pool types.Object
			if sel, ok := core.Unparen(call.Fun).(*ast.SelectorExpr); ok {
				pool = rootIdentObj(inf, sel.X)
				if fv, ok := core.ObjOf(inf, sel.X).(*types.Var); ok {
					pool = fv
				}
			}
			if as, ok := st.(*ast.AssignStmt); ok && len(as.Lhs) >= 1 {
				gets = append(gets, getSite{core.ObjOf(inf, as.Lhs[0]), st, pool})
			} else {
				gets = append(gets, getSite{nil, st, pool})
			}
		case core.IsMethod(f, "sync", "Pool", "Put") && len(call.Args) == 1:
			st := core.EnclosingStmt(par, call)
			_, isDefer := st.(*ast.DeferStmt)
			inLit := false
			for q := par[call]; q != nil; q = par[q] {
				if fl, ok := q.(*ast.FuncLit); ok {
					if ds, ok := par[par[fl]].(*ast.DeferStmt); ok && ds != nil {
						isDefer = true
					}
					inLit = true
					_ = inLit
					break
				}
			}
			puts = append(puts, putSite{core.ObjOf(inf, call.Args[0]), st, isDefer, call})
		}
		return true
	})
	sites = len(gets) + len(puts)
	if sites == 0 {
		return 0, nil
	}
	pos := func(p token.Pos) string {
		pp := fset.Position(p)
		return fmt.Sprintf("%s:%d", shortFile(pp.Filename), pp.Line)
	}
	// (a) re-initialised on the way in, (b) right before every Put of the pool (anywhere in the package), or both together
	for _, g := range gets {
		list, idx := core.StmtListOf(par, g.stmt)
		cov := poolCoverage{fields: map[string]bool{}}
		if g.o != nil && idx >= 0 {
			cov = poolResetRun(m, inf, list, idx+1, 1, g.o)
		}
		if pc := putCov[g.pool]; pc != nil {
			cov = cov.union(*pc)
		}
		var t types.Type
		if g.o != nil {
			t = g.o.Type()
		}
		ok, why := false, "the value is not bound to a variable"
		if t != nil {
			ok, why = cov.complete(m, t)
		}
		if !ok {
			problems = append(problems, pos(g.stmt.Pos())+": the object taken from the pool is used without being completely re-initialised on the way in or on the way out ("+why+"): what an earlier (possibly failed) use left behind is carried into this one")
		}
	}
	// (c) nothing runs after a non-deferred Put once an alias was handed to another function
	for _, p := range puts {
		if p.deferred || p.o == nil {
			continue
		}
		handed := ""
		ast.Inspect(body, func(x ast.Node) bool {
			call, ok := x.(*ast.CallExpr)
			if !ok || call == p.call || call.Pos() > p.call.Pos() {
				return true
			}
			if f := core.Callee(inf, call); f != nil && f.Pkg() != nil && f.Pkg().Path() == "sync" {
				return true
			}
			for _, a := range call.Args {
				r := rootIdent(a)
				if r != nil && inf.Uses[r] == p.o {
					if tv, ok := inf.Types[a]; ok && tv.Type != nil {
						switch tv.Type.Underlying().(type) {
						case *types.Slice, *types.Pointer, *types.Map, *types.Interface:
							handed = core.ExprString(call.Fun) + "(… " + core.ExprString(a) + " …)"
						}
					}
				}
			}
			return true
		})
		if handed == "" {
			continue
		}
		after := false
		fl := core.NewFlow(m, inf, body)
		fl.Run(&core.Automaton{
			Init: 0,
			Node: func(st int, n ast.Node) int {
				hasPut := false
				core.WalkNoFuncLit(n, func(y ast.Node) bool {
					if y == ast.Node(p.call) {
						hasPut = true
					}
					return true
				})
				if st == 1 {
					core.WalkNoFuncLit(n, func(y ast.Node) bool {
						if call, ok := y.(*ast.CallExpr); ok {
							if tv, ok := inf.Types[call.Fun]; ok && (tv.IsType() || tv.IsBuiltin()) {
								return true
							}
							after = true
						}
						return true
					})
				}
				if hasPut {
					return 1
				}
				return st
			},
		})
		if after {
			problems = append(problems, pos(p.call.Pos())+": "+handed+" received memory of the pooled object and code still runs after this Put: whatever the callee retained (request context, response) now belongs to the next Get")
		}
	}
	return sites, problems
}

func runR179(c *core.Ctx) {
	funcs, sites := 0, 0
	putCov := map[string]map[types.Object]*poolCoverage{}
	for _, p := range c.M.Roots {
		var bodies []*ast.BlockStmt
		for _, file := range p.Syntax {
			if strings.HasSuffix(c.M.Fset.File(file.Pos()).Name(), "_test.go") {
				continue
			}
			for _, d := range file.Decls {
				if fd, ok := d.(*ast.FuncDecl); ok && fd.Body != nil {
					bodies = append(bodies, fd.Body)
				}
			}
		}
		putCov[p.PkgPath] = poolPutCoverage(c.M, p.TypesInfo, bodies)
	}
	for _, p := range c.M.Roots {
		inf := p.TypesInfo
		rel := c.M.Rel(p.PkgPath)
		for _, file := range p.Syntax {
			if strings.HasSuffix(c.M.Fset.File(file.Pos()).Name(), "_test.go") {
				continue
			}
			for _, d := range file.Decls {
				fd, ok := d.(*ast.FuncDecl)
				if !ok || fd.Body == nil {
					continue
				}
				funcs++
				n, problems := pooledHygiene(c.M.Fset, c.M, inf, fd.Body, putCov[p.PkgPath])
				sites += n
				if n > 0 {
					c.Check(len(problems) == 0, rel, core.DeclName(fd), "pooled objects are reset before reuse and not used after Put", fd.Pos(), fmt.Sprintf("%d Get/Put sites", n), strings.Join(dedupe(problems), "; "))
				}
			}
		}
	}
	c.OK("-", "-", "functions scanned for sync.Pool Get/Put", token.NoPos, fmt.Sprintf("%d functions, %d sites", funcs, sites))
	const ctl = `package ctl
import ("bytes"; "sync")
var pool = sync.Pool{New: func() any { return new(bytes.Buffer) }}
func dirty(p []byte, fail bool) (string, bool) {
	b := pool.Get().(*bytes.Buffer)
	defer pool.Put(b)
	b.Write(p)
	if fail { return "", false }
	s := b.String()
	b.Reset()
	return s, true
}
func clean(p []byte) string {
	b := pool.Get().(*bytes.Buffer)
	b.Reset()
	defer pool.Put(b)
	b.Write(p)
	return b.String()
}
func keep(dst *[][]byte) {}
func late(dst *[][]byte, p []byte) int {
	b := pool.Get().(*[]byte)
	*b = (*b)[:0]
	keepSlice(dst, *b)
	pool.Put(b)
	return len(p) + use(dst)
}
func keepSlice(dst *[][]byte, b []byte) { *dst = append(*dst, b) }
func use(dst *[][]byte) int { return len(*dst) }`
	f, err := parser.ParseFile(c.M.Fset, "pool_hygiene_control.go", ctl, 0)
	if err != nil {
		c.Unknown("-", "-", "positive control", token.NoPos, err.Error())
		return
	}
	inf := &types.Info{Types: map[ast.Expr]types.TypeAndValue{}, Defs: map[*ast.Ident]types.Object{}, Uses: map[*ast.Ident]types.Object{}, Selections: map[*ast.SelectorExpr]*types.Selection{}}
	imp := importerFunc(func(path string) (*types.Package, error) {
		if p := c.M.AllByPath[path]; p != nil && p.Types != nil {
			return p.Types, nil
		}
		return nil, fmt.Errorf("package %s not in the loaded closure", path)
	})
	if _, err := (&types.Config{Importer: imp}).Check("ctl", c.M.Fset, []*ast.File{f}, inf); err != nil {
		c.Unknown("-", "-", "positive control", token.NoPos, "control does not type-check: "+err.Error())
		return
	}
	got := map[string]int{}
	var ctlBodies []*ast.BlockStmt
	for _, d := range f.Decls {
		if fd, ok := d.(*ast.FuncDecl); ok && fd.Body != nil && fd.Name.Name != "dirty" {
			ctlBodies = append(ctlBodies, fd.Body)
		}
	}
	ctlPut := poolPutCoverage(nil, inf, ctlBodies)
	for _, d := range f.Decls {
		if fd, ok := d.(*ast.FuncDecl); ok && fd.Body != nil {
			_, problems := pooledHygiene(c.M.Fset, c.M, inf, fd.Body, ctlPut)
			got[fd.Name.Name] = len(problems)
		}
	}
	c.Check(got["dirty"] > 0 && got["clean"] == 0 && got["late"] > 0, "-", "-", "positive control: dirty reuse and use-after-Put are recognised, reset-on-Get is accepted", token.NoPos,
		fmt.Sprintf("dirty=%d clean=%d late=%d", got["dirty"], got["clean"], got["late"]), fmt.Sprintf("control verdicts dirty=%d clean=%d late=%d", got["dirty"], got["clean"], got["late"]))
}

func enclosingFuncDecl(file *ast.File, pos token.Pos) *ast.FuncDecl {
	for _, d := range file.Decls {
		if fd, ok := d.(*ast.FuncDecl); ok && fd.Pos() <= pos && pos <= fd.End() {
			return fd
		}
	}
	return nil
}

func init() {
	core.Register(&core.Rule{
		ID:    "R20.5",
		Title: "the cleaner sees the target as given and removes the manifest at every level",
		Text: "In the cleaner (CleanTargetDir and the package functions on a call cycle with it) (a) no directory parameter is reassigned before it reaches the `!= \".\"` guards: a normalised path (filepath.Abs/Clean) is never equal to \".\" and the current directory would be removed once cleaning leaves it empty; " +
			"(b) every call that hands a directory entry (join(dir, core.NameOf(entry)), under entry.IsDir()) to a function or closure of the cleaner goes to one that removes the manifest file of the directory it is given: " +
			"a manifest below the top level otherwise survives cleaning and keeps its directory chain alive.",
		Props: []string{"C20"},
		Floor: map[string]int{"v2": 2, "root": 2},
		Run:   runR205,
	})
	core.Register(&core.Rule{
		ID:    "R15.7",
		Title: "URL construction keeps no state in the client",
		Text: "Client.formatQueryUrl and newRequest store nothing through the client (mutation summary: no assignment to a client field, no mutating method of a field such as sync.Map.Store): " +
			"the request URL must be a function of what the resolver returned for this call; a memo keyed by less than the whole resolver answer pins the scheme and host of the first answer.",
		Props: []string{"C15", "C17"},
		Floor: map[string]int{"v2": 1, "root": 1},
		Run:   runR157,
	})
}

func runR205(c *core.Ctx) {
	const rel = "codegen/utils"
	inf := info(c, rel)
	cf, fd := mustDecl(c, rel, "CleanTargetDir")
	comp := cleanerComponent(c, rel, cf)
	var reassigned []string
	nParams := 0
	for _, cfd := range comp {
		// the string parameters (and those of the function literals inside): directory paths
		params := map[types.Object]bool{}
		collect := func(ft *ast.FuncType) {
			if ft.Params == nil {
				return
			}
			for _, fl := range ft.Params.List {
				for _, nm := range fl.Names {
					if o := inf.Defs[nm]; o != nil {
						if b, ok := o.Type().Underlying().(*types.Basic); ok && b.Info()&types.IsString != 0 {
							params[o] = true
						}
					}
				}
			}
		}
		collect(cfd.Type)
		for _, fl := range core.AllFuncLits(cfd.Body) {
			collect(fl.Type)
		}
		nParams += len(params)
		ast.Inspect(cfd.Body, func(n ast.Node) bool {
			if as, ok := n.(*ast.AssignStmt); ok {
				for _, l := range as.Lhs {
					if id, ok := core.Unparen(l).(*ast.Ident); ok && params[inf.Uses[id]] {
						reassigned = append(reassigned, c.M.Position(as.Pos()))
					}
				}
			}
			return true
		})
	}
	if nParams == 0 {
		c.Unknown(rel, "CleanTargetDir", "directory parameter", fd.Pos(), "the cleaner has no string parameter")
		return
	}
	c.Check(len(reassigned) == 0, rel, "CleanTargetDir", "the directory parameter reaches the \".\" guards as given", fd.Pos(), "",
		"the parameter is reassigned at "+strings.Join(reassigned, ", ")+": after normalisation the comparison with \".\" never holds and an emptied current directory is removed")
	// manifest removal sites: os.Remove(filepath.Join(x, <manifest const>))
	manifest := manifestConst(c)
	removesManifest := func(body ast.Node) bool {
		found := false
		ast.Inspect(body, func(n ast.Node) bool {
			call, ok := n.(*ast.CallExpr)
			if !ok || !core.IsFunc(core.Callee(inf, call), "os", "Remove") || len(call.Args) != 1 {
				return true
			}
			if j, ok := core.Unparen(call.Args[0]).(*ast.CallExpr); ok && core.IsFunc(core.Callee(inf, j), "path/filepath", "Join") {
				for _, a := range j.Args {
					if constObj(c, inf, a) == manifest && manifest != nil {
						found = true
					}
				}
			}
			return true
		})
		return found
	}
	n, bad := 0, 0
	for _, d := range cleanerDescents(c, rel, comp) {
		if !d.underIsDir(inf) {
			continue
		}
		n++
		if !removesManifest(d.target) {
			bad++
			c.Bad(rel, "CleanTargetDir", fmt.Sprintf("sub-directory recursion #%d removes the manifest of the directory it enters", n), d.call.Pos(),
				"the recursive call goes to a function that never removes the manifest file: manifests below the top level survive cleaning")
		}
	}
	if bad == 0 {
		c.Check(n > 0, rel, "CleanTargetDir", "sub-directory recursion removes the manifest of every directory it enters", fd.Pos(), fmt.Sprintf("%d recursive calls", n), "no recursive call under IsDir() found")
	}
}

func runR157(c *core.Ctx) {
	const rel = "restli"
	inf := info(c, rel)
	mut := mutatingMethods(c)
	f := mustFunc(c, rel, "(*Client).formatQueryUrl")
	fd := c.M.Decl(f)
	recv := recvObj(inf, fd)
	var problems []string
	if mut[f] {
		problems = append(problems, "assigns a client field or calls a mutating method through the receiver")
	}
	// containers on the client (sync.Map, maps, caches) consulted while building the URL are state, even when race-free
	ast.Inspect(fd.Body, func(n ast.Node) bool {
		sel, ok := n.(*ast.SelectorExpr)
		if !ok {
			return true
		}
		id, ok := core.Unparen(sel.X).(*ast.Ident)
		if !ok || inf.Uses[id] != recv || recv == nil {
			return true
		}
		fv, ok := core.ObjOf(inf, sel).(*types.Var)
		if !ok || !fv.IsField() {
			return true
		}
		_, isMap := fv.Type().Underlying().(*types.Map)
		if isMap || isSyncType(fv.Type()) {
			problems = append(problems, c.M.Position(sel.Pos())+": consults the client's "+core.NameOf(fv)+" ("+fv.Type().String()+")")
		}
		return true
	})
	c.Check(len(problems) == 0, rel, "(*Client).formatQueryUrl", "keeps and consults no state on the client", fd.Pos(), "no store through the receiver, no map / sync container of the client used",
		strings.Join(dedupe(problems), "; ")+": the URL of a request then depends on earlier requests, not only on what the resolver returned for this one")
}

// ---- alias flow shared by the pool rules -------------------------------------

// aliasEngine computes, flow-insensitively inside one function, which expressions may alias a set of seed objects,
// following module functions through per-function summaries (which results may alias which parameters), calls through
// function values and interface methods conservatively (any non-basic, non-error result of a call that received an alias),
// and a table of standard-library view constructors.
type aliasEngine struct {
	mod    *core.Module
	memo   map[*types.Func]map[int]map[int]bool
	inprog map[*types.Func]bool
}

type aliasState struct {
	eng     *aliasEngine
	inf     *types.Info
	body    *ast.BlockStmt
	aliases map[types.Object]bool
	results map[types.Object]bool
	depth   int
}

func isRefLike(t types.Type) bool {
	if t == nil {
		return false
	}
	if _, ok := t.(*types.TypeParam); ok {
		return true
	}
	switch u := t.Underlying().(type) {
	case *types.Slice, *types.Pointer, *types.Map, *types.Chan, *types.Signature:
		return true
	case *types.Interface:
		return !core.IsErrorType(t)
	case *types.Struct:
		for i := 0; i < u.NumFields(); i++ {
			if isRefLike(u.Field(i).Type()) {
				return true
			}
		}
	}
	return false
}

var viewConstructors = map[string]bool{
	"bytes.NewReader": true, "bytes.NewBuffer": true, "bufio.NewReader": true, "bufio.NewReaderSize": true, "io.NopCloser": true, "io.LimitReader": true,
	"io.TeeReader": true, "io.MultiReader": true, "bytes.TrimSpace": true, "bytes.Trim": true, "bytes.TrimRight": true, "bytes.TrimLeft": true, "bytes.TrimPrefix": true, "bytes.TrimSuffix": true, "bytes.Fields": true, "bytes.Split": true,
}

func (e *aliasEngine) flow(inf *types.Info, ftype *ast.FuncType, body *ast.BlockStmt, seeds map[types.Object]bool, depth int) *aliasState {
	st := &aliasState{eng: e, inf: inf, body: body, aliases: map[types.Object]bool{}, results: map[types.Object]bool{}, depth: depth}
	for o := range seeds {
		st.aliases[o] = true
	}
	if ftype != nil && ftype.Results != nil {
		for _, f := range ftype.Results.List {
			for _, n := range f.Names {
				st.results[inf.Defs[n]] = true
			}
		}
	}
	for changed := true; changed; {
		changed = false
		mark := func(l ast.Expr) {
			id, ok := core.Unparen(l).(*ast.Ident)
			if !ok || id.Name == "_" {
				return
			}
			o := core.ObjOf(inf, id)
			if o == nil || st.aliases[o] {
				return
			}
			if v, ok := o.(*types.Var); ok && !v.IsField() && o.Pkg() != nil && o.Parent() != o.Pkg().Scope() {
				st.aliases[o] = true
				changed = true
			}
		}
		ast.Inspect(body, func(x ast.Node) bool {
			switch as := x.(type) {
			case *ast.AssignStmt:
				if len(as.Lhs) == len(as.Rhs) {
					for i, l := range as.Lhs {
						if st.alias(as.Rhs[i]) {
							mark(l)
						}
					}
				} else if len(as.Rhs) == 1 {
					if call, ok := core.Unparen(as.Rhs[0]).(*ast.CallExpr); ok {
						ra := st.callResults(call)
						for i, l := range as.Lhs {
							if ra[i] {
								mark(l)
							}
						}
					}
				}
			case *ast.RangeStmt:
				if st.alias(as.X) && as.Value != nil {
					if tv, ok := inf.Types[as.Value]; ok && isRefLike(tv.Type) {
						mark(as.Value)
					}
				}
			}
			return true
		})
	}
	return st
}

func (st *aliasState) isOwnLocal(l ast.Expr) (types.Object, bool) {
	id, ok := core.Unparen(l).(*ast.Ident)
	if !ok {
		return nil, false
	}
	o := core.ObjOf(st.inf, id)
	if o == nil || st.results[o] || o.Parent() == nil || o.Pkg() == nil || o.Parent() == o.Pkg().Scope() {
		return o, false
	}
	return o, core.ObjPos(o) >= st.body.Pos() && core.ObjPos(o) <= st.body.End()
}

func (st *aliasState) alias(e ast.Expr) bool {
	inf := st.inf
	switch y := core.Unparen(e).(type) {
	case *ast.Ident:
		return st.aliases[core.ObjOf(inf, y)]
	case *ast.SliceExpr:
		return st.alias(y.X)
	case *ast.IndexExpr:
		if tv, ok := inf.Types[y]; ok && isRefLike(tv.Type) {
			return st.alias(y.X)
		}
		return false
	case *ast.StarExpr:
		if tv, ok := inf.Types[y]; ok && isRefLike(tv.Type) {
			return st.alias(y.X) // a copy of the pointee still shares what it points to
		}
		return false
	case *ast.UnaryExpr:
		return y.Op == token.AND && st.alias(y.X)
	case *ast.SelectorExpr:
		if fv, ok := core.ObjOf(inf, y).(*types.Var); ok && fv.IsField() {
			return st.alias(y.X) && isRefLike(fv.Type())
		}
	case *ast.TypeAssertExpr:
		return st.alias(y.X)
	case *ast.CompositeLit:
		for _, el := range y.Elts {
			if kv, ok := el.(*ast.KeyValueExpr); ok {
				el = kv.Value
			}
			if st.alias(el) {
				return true
			}
		}
		return false
	case *ast.CallExpr:
		return st.callResults(y)[0]
	}
	return false
}

// callResults: indices of the results of call that may alias a seed.
func (st *aliasState) callResults(call *ast.CallExpr) map[int]bool {
	inf := st.inf
	out := map[int]bool{}
	if tv, ok := inf.Types[call.Fun]; ok && tv.IsType() {
		// conversion: string(b) and []byte(s) copy; everything else re-types the same memory
		if len(call.Args) == 1 && st.alias(call.Args[0]) {
			if b, ok := tv.Type.Underlying().(*types.Basic); ok && b.Info()&types.IsString != 0 {
				return out
			}
			if at, ok := inf.Types[call.Args[0]]; ok {
				if b, ok := at.Type.Underlying().(*types.Basic); ok && b.Info()&types.IsString != 0 {
					return out
				}
			}
			out[0] = true
		}
		return out
	}
	if id, ok := core.Unparen(call.Fun).(*ast.Ident); ok {
		if _, isB := inf.Uses[id].(*types.Builtin); isB {
			if id.Name == "append" && len(call.Args) > 0 && st.alias(call.Args[0]) {
				out[0] = true
			}
			return out
		}
	}
	var sig *types.Signature
	if tv, ok := inf.Types[call.Fun]; ok && tv.Type != nil {
		sig, _ = tv.Type.Underlying().(*types.Signature)
	}
	if sig == nil {
		return out
	}
	// which arguments (and the receiver) are aliases
	aliasArgs := map[int]bool{}
	for i, a := range call.Args {
		if st.alias(a) {
			aliasArgs[i] = true
		}
	}
	recvAlias := false
	if sel, ok := core.Unparen(call.Fun).(*ast.SelectorExpr); ok {
		if _, isPkg := core.ObjOf(inf, sel.X).(*types.PkgName); !isPkg && st.alias(sel.X) {
			recvAlias = true
		}
	}
	if len(aliasArgs) == 0 && !recvAlias {
		return out
	}
	conservative := func() {
		for i := 0; i < sig.Results().Len(); i++ {
			if isRefLike(sig.Results().At(i).Type()) {
				out[i] = true
			}
		}
	}
	f := core.Callee(inf, call)
	switch {
	case f == nil:
		conservative() // a function value: closure, callback, field
	case f.Pkg() != nil && st.eng.mod != nil && st.eng.mod.InModule(f.Pkg()) && st.eng.mod.Decl(f.Origin()) != nil && st.depth < 4:
		sum := st.eng.summary(f.Origin(), st.depth+1)
		for j := range aliasArgs {
			pj := j
			if sig.Variadic() && j >= sig.Params().Len()-1 {
				pj = sig.Params().Len() - 1
			}
			for r := range sum[pj] {
				out[r] = true
			}
		}
		if recvAlias {
			for r := range sum[-1] {
				out[r] = true
			}
		}
	case f.Pkg() != nil && st.eng.mod != nil && st.eng.mod.InModule(f.Pkg()):
		conservative() // module function without a body in reach (interface method, depth bound)
	default:
		if recvAlias {
			// a method of an external type on an aliasing receiver: views (Bytes, Next, …) alias, copies of basic type do not
			for i := 0; i < sig.Results().Len(); i++ {
				if isRefLike(sig.Results().At(i).Type()) {
					out[i] = true
				}
			}
		}
		if len(aliasArgs) > 0 && f.Pkg() != nil && viewConstructors[f.Pkg().Name()+"."+core.NameOf(f)] {
			out[0] = true
		}
		if f.Pkg() == nil || types.IsInterface(recvTypeOf(f)) {
			conservative()
		}
	}
	return out
}

func recvTypeOf(f *types.Func) types.Type {
	if sig, ok := f.Type().(*types.Signature); ok && sig.Recv() != nil {
		return sig.Recv().Type()
	}
	return types.Typ[types.Invalid]
}

// summary: for module function f, param index (-1 = receiver) -> result indices that may alias it.
func (e *aliasEngine) summary(f *types.Func, depth int) map[int]map[int]bool {
	if s, ok := e.memo[f]; ok {
		return s
	}
	if e.inprog[f] {
		return nil
	}
	e.inprog[f] = true
	defer delete(e.inprog, f)
	fd := e.mod.Decl(f)
	out := map[int]map[int]bool{}
	if fd == nil || fd.Body == nil {
		return out
	}
	inf := e.mod.InfoFor(fd.Pos())
	if inf == nil {
		return out
	}
	var params []types.Object
	if fd.Type.Params != nil {
		for _, fl := range fd.Type.Params.List {
			for _, n := range fl.Names {
				params = append(params, inf.Defs[n])
			}
			if len(fl.Names) == 0 {
				params = append(params, nil)
			}
		}
	}
	one := func(idx int, o types.Object) {
		if o == nil || !isRefLike(o.Type()) {
			return
		}
		st := e.flow(inf, fd.Type, fd.Body, map[types.Object]bool{o: true}, depth)
		ast.Inspect(fd.Body, func(n ast.Node) bool {
			switch r := n.(type) {
			case *ast.FuncLit:
				return false
			case *ast.ReturnStmt:
				if len(r.Results) == 1 {
					if call, ok := core.Unparen(r.Results[0]).(*ast.CallExpr); ok {
						for i := range st.callResults(call) {
							if out[idx] == nil {
								out[idx] = map[int]bool{}
							}
							out[idx][i] = true
						}
					}
				}
				for i, res := range r.Results {
					if st.alias(res) {
						if out[idx] == nil {
							out[idx] = map[int]bool{}
						}
						out[idx][i] = true
					}
				}
				if len(r.Results) == 0 && fd.Type.Results != nil {
					i := 0
					for _, fl := range fd.Type.Results.List {
						for _, nm := range fl.Names {
							if st.aliases[inf.Defs[nm]] {
								if out[idx] == nil {
									out[idx] = map[int]bool{}
								}
								out[idx][i] = true
							}
							i++
						}
					}
				}
			}
			return true
		})
	}
	for i, p := range params {
		one(i, p)
	}
	if fd.Recv != nil {
		one(-1, recvObj(inf, fd))
	}
	e.memo[f] = out
	return out
}

func init() {
	core.Register(&core.Rule{
		ID:    "R07.10",
		Title: "patch operators are skipped at every depth of the matcher",
		Text: "Every recursive descent of the exclusion matcher (a call that passes a tail of the path) targets a function that itself steps over the $set / $delete operators (it compares the path head with both operator constants): " +
			"operators occur at any depth of a partial update (patch/inner/$set/detail), so a helper that recurses into itself without the skip matches nothing below a nested operator.",
		Props: []string{"C07", "C11"},
		Floor: map[string]int{"v2": 1, "root": 1},
		Run:   runR0710,
	})
	core.Register(&core.Rule{
		ID:    "R01.8",
		Title: "rune offsets are not element indices",
		Text: "In the codec packages, the key of a `for i, c := range <string>` loop (the byte offset of the rune) is never used to index or slice anything but that same string: " +
			"a bytes value is one character per byte, and writing data[i] = byte(c) leaves gaps and a wrong length as soon as a character above 0x7F occurs (a fixed of the wrong size is then accepted, a right-sized one rejected).",
		Props: []string{"C01", "C11", "C03", "C04"},
		Floor: map[string]int{"v2": 1, "root": 1},
		Run:   runR018,
	})
	core.Register(&core.Rule{
		ID:    "R12.7",
		Title: "multi-key comparators are lexicographic",
		Text: "Every less-function handed to sort.Slice / sort.SliceStable / slices.SortFunc in the generator and runtime that compares more than one key has the lexicographic shape: an early `return true` under `a < b` is matched by the opposite exit (`a > b` → false, or the test is `a != b` → `return a < b`). " +
			"`if a < b {return true}; return c < d` is not a strict weak ordering; sort then returns an order that depends on the initial (map) order and generation is no longer deterministic.",
		Props: []string{"C12", "C09"},
		Floor: map[string]int{"v2": 5, "root": 3},
		Run:   runR127,
	})
	core.Register(&core.Rule{
		ID:    "R12.8",
		Title: "slices taken from the end are guarded in the generator",
		Text: "In the generator packages every slice expression whose lower bound has the form len(x)-n (n not a constant) is dominated by a test that len(x) is at least n (`len(x) > n`, `>= n`, `n < len(x)`, `n <= len(x)`): " +
			"name-clash resolution walks namespaces of different depth, and an unguarded ns[len(ns)-n:] panics for the shallower one — generation is not total.",
		Props:   []string{"C12"},
		Floor:   map[string]int{"v2": 1},
		Modules: []string{"v2"},
		Run:     runR128,
	})
	core.Register(&core.Rule{
		ID:    "R14.5",
		Title: "bodies are read whole or rejected, never silently truncated",
		Text: "Package restli never wraps a request or response body in io.LimitReader / io.LimitedReader / io.CopyN: those end the stream with a clean EOF at the limit, so a long tunnelled query or body is cut without an error and reaches resource code altered. " +
			"(http.MaxBytesReader, which fails the read, is the accepted way to bound memory.)",
		Props: []string{"C14", "C02"},
		Floor: map[string]int{"v2": 1, "root": 1},
		Run:   runR145,
	})
	core.Register(&core.Rule{
		ID:    "R16.8",
		Title: "search flags are monotone",
		Text: "In the key-set and equality packages, a boolean declared outside a loop and assigned inside it is only ever set to the constant true there (or the loop is left right after the assignment): " +
			"`found = equals(k, key)` in every iteration lets a later candidate of the same hash bucket erase an earlier match, so colliding keys are reported unknown and duplicates accepted.",
		Props: []string{"C16", "C10"},
		Floor: map[string]int{"v2": 1, "root": 1},
		Run:   runR168,
	})
}

func runR0710(c *core.Ctx) {
	const rel = "restlicodec"
	inf, fd, _, pathObj := matcherDecl(c)
	if fd == nil {
		c.Unknown(rel, "genericMatches", "matcher shape", token.NoPos, "not found")
		return
	}
	skipsOperators := func(body ast.Node) bool {
		seen := map[string]bool{}
		ast.Inspect(body, func(n ast.Node) bool {
			if be, ok := n.(*ast.BinaryExpr); ok && be.Op == token.EQL {
				for _, side := range []ast.Expr{be.X, be.Y} {
					if v := core.ConstOf(inf, side); v != nil {
						seen[v.ExactString()] = true
					}
				}
			}
			if cc, ok := n.(*ast.CaseClause); ok {
				for _, e := range cc.List {
					if v := core.ConstOf(inf, e); v != nil {
						seen[v.ExactString()] = true
					}
				}
			}
			return true
		})
		return seen[`"$set"`] && seen[`"$delete"`]
	}
	// the functions of the matcher: genericMatches and the module functions it (transitively) hands the path to; for each,
	// the parameter that carries the path
	type item struct {
		fd   *ast.FuncDecl
		path types.Object
	}
	visited := map[*types.Func]bool{}
	self, _ := inf.Defs[fd.Name].(*types.Func)
	visited[self] = true
	work := []item{{fd, pathObj}}
	n, bad := 0, 0
	for len(work) > 0 {
		cur := work[0]
		work = work[1:]
		ast.Inspect(cur.fd.Body, func(x ast.Node) bool {
			call, ok := x.(*ast.CallExpr)
			if !ok {
				return true
			}
			f := core.Callee(inf, call)
			if f == nil || f.Pkg() == nil || !c.M.InModule(f.Pkg()) {
				return true
			}
			target := c.M.Decl(f.Origin())
			if target == nil || target.Body == nil {
				return true
			}
			passesTail := false
			var calleePath types.Object
			k := 0
			for _, fl := range target.Type.Params.List {
				for _, nm := range fl.Names {
					if k < len(call.Args) && cur.path != nil {
						a := core.Unparen(call.Args[k])
						if se, ok := a.(*ast.SliceExpr); ok && core.ObjOf(inf, se.X) == cur.path && se.Low != nil {
							passesTail = true
							calleePath = inf.Defs[nm]
						} else if core.ObjOf(inf, a) == cur.path {
							calleePath = inf.Defs[nm]
						}
					}
					k++
				}
			}
			if calleePath == nil {
				return true
			}
			if !visited[f.Origin()] {
				visited[f.Origin()] = true
				work = append(work, item{target, calleePath})
			}
			if passesTail {
				n++
				if !skipsOperators(target.Body) {
					bad++
					c.Bad(rel, core.DeclName(cur.fd), fmt.Sprintf("descent #%d re-enters a function that skips $set / $delete", n), call.Pos(),
						"the tail of the path is handed to "+core.NameOf(f)+", which never compares the head with the operator constants: nothing below an operator nested deeper than the first segment is matched")
				}
			}
			return true
		})
	}
	if bad == 0 {
		c.Check(n > 0, rel, "genericMatches", "every recursive descent re-enters a function that skips $set / $delete", fd.Pos(), fmt.Sprintf("%d descents in %d functions", n, len(visited)), "no recursive descent found: how are nested paths matched?")
	}
}

func runR018(c *core.Ctx) {
	total := 0
	for _, rel := range []string{"restlicodec", "restlidata", "restli", "fnv1a"} {
		p := c.M.Pkg(rel)
		if p == nil {
			continue
		}
		inf := p.TypesInfo
		for _, fd := range c.M.FuncDecls(rel) {
			if fd.Body == nil || strings.HasSuffix(c.M.Fset.File(fd.Pos()).Name(), "_test.go") {
				continue
			}
			ast.Inspect(fd.Body, func(x ast.Node) bool {
				rs, ok := x.(*ast.RangeStmt)
				if !ok || rs.Key == nil {
					return true
				}
				b, ok := inf.Types[rs.X].Type.Underlying().(*types.Basic)
				if !ok || b.Info()&types.IsString == 0 {
					return true
				}
				key := core.ObjOf(inf, rs.Key)
				if key == nil || core.NameOf(key) == "_" {
					return true
				}
				total++
				var problems []string
				ast.Inspect(rs.Body, func(y ast.Node) bool {
					var base ast.Expr
					var idxs []ast.Expr
					switch z := y.(type) {
					case *ast.IndexExpr:
						base, idxs = z.X, []ast.Expr{z.Index}
					case *ast.SliceExpr:
						base, idxs = z.X, []ast.Expr{z.Low, z.High}
					default:
						return true
					}
					if core.SameExpr(inf, base, rs.X) {
						return true
					}
					for _, ix := range idxs {
						if ix == nil {
							continue
						}
						// uses of the key that index the ranged string itself (chars[i]) are what the offset is for
						direct := false
						var walk func(e ast.Node)
						walk = func(e ast.Node) {
							ast.Inspect(e, func(z ast.Node) bool {
								switch w := z.(type) {
								case *ast.IndexExpr:
									if core.SameExpr(inf, w.X, rs.X) {
										return false
									}
								case *ast.SliceExpr:
									if core.SameExpr(inf, w.X, rs.X) {
										return false
									}
								case *ast.Ident:
									if core.ObjOf(inf, w) == key {
										direct = true
									}
								}
								return true
							})
						}
						walk(ix)
						if direct {
							problems = append(problems, core.ExprString(base)+" is indexed with the rune offset "+core.NameOf(key))
						}
					}
					return true
				})
				c.Check(len(problems) == 0, rel, core.DeclName(fd), fmt.Sprintf("range over the string %s #%d keeps its byte offset to itself", core.ExprString(rs.X), ordinal(fd, rs)), rs.Pos(), "",
					strings.Join(dedupe(problems), "; ")+": offsets jump by the UTF-8 width of each character, the element count does not")
				return true
			})
		}
	}
	c.OK("-", "-", "string range loops with a key inspected", token.NoPos, fmt.Sprintf("%d", total))
}

func runR127(c *core.Ctx) {
	n := 0
	for _, p := range c.M.Roots {
		inf := p.TypesInfo
		rel := c.M.Rel(p.PkgPath)
		for _, file := range p.Syntax {
			fname := c.M.Fset.File(file.Pos()).Name()
			if strings.HasSuffix(fname, "_test.go") || strings.HasSuffix(fname, ".gr.go") {
				continue
			}
			ast.Inspect(file, func(x ast.Node) bool {
				call, ok := x.(*ast.CallExpr)
				if !ok {
					return true
				}
				f := core.Callee(inf, call)
				if f == nil || f.Pkg() == nil {
					return true
				}
				isSort := (f.Pkg().Path() == "sort" && (core.NameOf(f) == "Slice" || core.NameOf(f) == "SliceStable")) || (f.Pkg().Path() == "slices" && strings.HasPrefix(core.NameOf(f), "Sort"))
				if !isSort || len(call.Args) < 2 {
					return true
				}
				lit, ok := core.Unparen(call.Args[len(call.Args)-1]).(*ast.FuncLit)
				if !ok {
					return true
				}
				n++
				// early `return true` under a strict comparison
				var problems []string
				list := lit.Body.List
				for i, st := range list {
					ifs, ok := st.(*ast.IfStmt)
					if !ok || ifs.Else != nil || len(ifs.Body.List) != 1 {
						continue
					}
					ret, ok := ifs.Body.List[0].(*ast.ReturnStmt)
					if !ok || len(ret.Results) != 1 {
						continue
					}
					be, ok := core.Unparen(ifs.Cond).(*ast.BinaryExpr)
					if !ok || (be.Op != token.LSS && be.Op != token.GTR) {
						continue
					}
					v := core.ConstOf(inf, ret.Results[0])
					if v == nil || i == len(list)-1 {
						continue
					}
					// look for the opposite exit on the same operands among the remaining statements
					matched := false
					for _, later := range list[i+1:] {
						if l2, ok := later.(*ast.IfStmt); ok {
							if b2, ok := core.Unparen(l2.Cond).(*ast.BinaryExpr); ok && core.SameExpr(inf, b2.X, be.X) && core.SameExpr(inf, b2.Y, be.Y) {
								if (be.Op == token.LSS && (b2.Op == token.GTR || b2.Op == token.NEQ)) || (be.Op == token.GTR && (b2.Op == token.LSS || b2.Op == token.NEQ)) {
									matched = true
								}
							}
							if b2, ok := core.Unparen(l2.Cond).(*ast.BinaryExpr); ok && core.SameExpr(inf, b2.X, be.Y) && core.SameExpr(inf, b2.Y, be.X) && b2.Op == be.Op {
								matched = true
							}
						}
					}
					if !matched {
						problems = append(problems, "returns "+v.ExactString()+" under "+core.ExprString(ifs.Cond)+" and then compares other keys without excluding the opposite case")
					}
				}
				c.Check(len(problems) == 0, rel, enclosingFuncName(file, call.Pos()), fmt.Sprintf("comparator of %s #%d is a strict weak ordering by shape", core.NameOf(f), ordinalIn(file, call)), call.Pos(), "",
					strings.Join(problems, "; ")+": not a strict weak ordering, the sorted order depends on the input order")
				return true
			})
		}
	}
	if n == 0 {
		c.Unknown("-", "-", "sort comparators", token.NoPos, "none found")
	}
}

func runR128(c *core.Ctx) {
	n := 0
	for _, rel := range []string{"codegen/utils", "codegen/types", "codegen/resources", "cmd"} {
		p := c.M.Pkg(rel)
		if p == nil {
			continue
		}
		inf := p.TypesInfo
		for _, file := range p.Syntax {
			if strings.HasSuffix(c.M.Fset.File(file.Pos()).Name(), "_test.go") {
				continue
			}
			par := core.Parents(file)
			ast.Inspect(file, func(x ast.Node) bool {
				se, ok := x.(*ast.SliceExpr)
				if !ok || se.Low == nil {
					return true
				}
				be, ok := core.Unparen(se.Low).(*ast.BinaryExpr)
				if !ok || be.Op != token.SUB || !isLenOf(inf, be.X, se.X) || core.ConstOf(inf, be.Y) != nil {
					return true
				}
				n++
				guard := func(f core.Fact) bool {
					g, ok := core.Unparen(f.Expr).(*ast.BinaryExpr)
					if !ok {
						return false
					}
					op := g.Op
					a, b := g.X, g.Y
					if !f.Val {
						switch op {
						case token.LSS:
							op = token.GEQ
						case token.LEQ:
							op = token.GTR
						case token.GTR:
							op = token.LEQ
						case token.GEQ:
							op = token.LSS
						default:
							return false
						}
					}
					// len(x) > n, len(x) >= n
					if (op == token.GTR || op == token.GEQ) && isLenOf(inf, a, se.X) && core.SameExpr(inf, b, be.Y) {
						return true
					}
					// n < len(x), n <= len(x)
					if (op == token.LSS || op == token.LEQ) && isLenOf(inf, b, se.X) && core.SameExpr(inf, a, be.Y) {
						return true
					}
					return false
				}
				ok2 := core.GuardedByFactAcrossClosures(inf, par, core.EnclosingStmt(par, se), guard, nil)
				c.Check(ok2, rel, enclosingFuncName(file, se.Pos()), fmt.Sprintf("slice %s is taken under a length test", core.ExprString(se)), se.Pos(), "",
					"no dominating test that "+core.ExprString(be.X)+" is at least "+core.ExprString(be.Y)+": a shorter "+core.ExprString(se.X)+" makes the generator panic")
				return true
			})
		}
	}
	if n == 0 {
		c.Unknown("-", "-", "slice expressions of the form x[len(x)-n:]", token.NoPos, "none found in the generator")
	}
}

func runR145(c *core.Ctx) {
	const rel = "restli"
	p := c.M.Pkg(rel)
	inf := p.TypesInfo
	reads, bad := 0, 0
	for _, file := range p.Syntax {
		if strings.HasSuffix(c.M.Fset.File(file.Pos()).Name(), "_test.go") {
			continue
		}
		ast.Inspect(file, func(x ast.Node) bool {
			switch y := x.(type) {
			case *ast.CallExpr:
				f := core.Callee(inf, y)
				if f == nil || f.Pkg() == nil {
					return true
				}
				switch f.Pkg().Path() + "." + core.NameOf(f) {
				case "io.Copy", "io.ReadAll", "io/ioutil.ReadAll":
					reads++
				case "io.LimitReader", "io.CopyN":
					bad++
					c.Bad(rel, enclosingFuncName(file, y.Pos()), fmt.Sprintf("no truncating reader #%d", bad), y.Pos(), f.FullName()+" ends the stream with a clean EOF at its limit: the rest of the body is dropped without an error")
				}
				if core.IsMethod(f, "bytes", "Buffer", "ReadFrom") {
					reads++
				}
			case *ast.CompositeLit:
				if nn := namedOf(inf.Types[y].Type); nn != nil && nn.Obj().Pkg() != nil && nn.Obj().Pkg().Path() == "io" && core.NameOf(nn.Obj()) == "LimitedReader" {
					bad++
					c.Bad(rel, enclosingFuncName(file, y.Pos()), fmt.Sprintf("no truncating reader #%d", bad), y.Pos(), "io.LimitedReader ends the stream with a clean EOF at its limit")
				}
			}
			return true
		})
	}
	if bad == 0 {
		c.Check(reads > 0, rel, "-", "bodies are read to the end by io.Copy / ReadAll / ReadFrom with no truncating wrapper", token.NoPos, fmt.Sprintf("%d whole-body reads", reads), "no body read found")
	}
}

func runR168(c *core.Ctx) {
	n := 0
	for _, rel := range []string{"restli/batchkeyset", "restli/equals"} {
		p := c.M.Pkg(rel)
		if p == nil {
			continue
		}
		inf := p.TypesInfo
		for _, fd := range c.M.FuncDecls(rel) {
			if fd.Body == nil || strings.HasSuffix(c.M.Fset.File(fd.Pos()).Name(), "_test.go") {
				continue
			}
			par := core.Parents(fd)
			ast.Inspect(fd.Body, func(x ast.Node) bool {
				var body *ast.BlockStmt
				switch l := x.(type) {
				case *ast.RangeStmt:
					body = l.Body
				case *ast.ForStmt:
					body = l.Body
				default:
					return true
				}
				ast.Inspect(body, func(y ast.Node) bool {
					if _, isLit := y.(*ast.FuncLit); isLit {
						return false
					}
					as, ok := y.(*ast.AssignStmt)
					if !ok || as.Tok == token.DEFINE || len(as.Lhs) != len(as.Rhs) {
						return true
					}
					for i, l := range as.Lhs {
						o := core.ObjOf(inf, l)
						if o == nil || core.ObjPos(o) >= x.Pos() && core.ObjPos(o) <= x.End() {
							continue // declared inside the loop
						}
						if b, ok := o.Type().Underlying().(*types.Basic); !ok || b.Kind() != types.Bool {
							continue
						}
						n++
						v := core.ConstOf(inf, as.Rhs[i])
						okSite := v != nil
						if !okSite {
							// accepted when the loop is left right after a positive outcome: the statement (or the if it
							// initialises) is followed by break / return under the flag
							okSite = leavesLoopAfter(inf, par, as, o)
						}
						c.Check(okSite, rel, core.DeclName(fd), fmt.Sprintf("flag %s assigned in a loop #%d is monotone", core.NameOf(o), ordinal(fd, as)), as.Pos(), "",
							core.NameOf(o)+" = "+core.ExprString(as.Rhs[i])+" on every iteration, and the loop goes on: a later element resets an earlier positive outcome")
					}
					return true
				})
				return true
			})
		}
	}
	if n == 0 {
		c.OK("-", "-", "no boolean flag is assigned inside a loop in the key-set / equality packages", token.NoPos, "")
	}
}

// leavesLoopAfter: the assignment is the init (or a statement) of an if whose body, entered when the flag is true,
// ends in break or return; or the next statement is such an if.
func leavesLoopAfter(inf *types.Info, par map[ast.Node]ast.Node, as *ast.AssignStmt, flag types.Object) bool {
	exits := func(ifs *ast.IfStmt) bool {
		id, ok := core.Unparen(ifs.Cond).(*ast.Ident)
		if !ok || core.ObjOf(inf, id) != flag || len(ifs.Body.List) == 0 {
			return false
		}
		switch last := ifs.Body.List[len(ifs.Body.List)-1].(type) {
		case *ast.BranchStmt:
			return last.Tok == token.BREAK
		case *ast.ReturnStmt:
			return true
		}
		return false
	}
	if ifs, ok := par[as].(*ast.IfStmt); ok && ifs.Init == ast.Stmt(as) {
		return exits(ifs)
	}
	list, idx := core.StmtListOf(par, as)
	if idx >= 0 && idx+1 < len(list) {
		if ifs, ok := list[idx+1].(*ast.IfStmt); ok {
			return exits(ifs)
		}
	}
	return false
}
