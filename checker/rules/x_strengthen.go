package rules

import (
	"fmt"
	"go/ast"
	"go/parser"
	"go/token"
	"go/types"
	"strings"

	"verif/checker/core"
)

// Rules added after the first round of independently seeded changes showed what the
// first rule set could not see.  Each is a structural necessary condition of its property.
func init() {
	core.Register(&core.Rule{
		ID:    "R15.4",
		Title: "request URLs are never rebuilt from the decoded path",
		Text: "In package restli (non-test) every url.URL composite literal that sets Path also sets RawPath, and newRequest never reassigns its URL variable: url.URL.String() re-encodes a URL without RawPath with Go's default escaper, " +
			"which differs from the Rest.li path encoding (',' '(' ')' ':' '/' inside keys).",
		Props: []string{"C15", "C02", "C14"},
		Floor: map[string]int{"v2": 1, "root": 1},
		Run:   runR154,
	})
	core.Register(&core.Rule{
		ID:    "R04.7",
		Title: "allocation sizes are not taken from peer-controlled fields",
		Text: "In package restli no argument of bytes.Buffer.Grow, make(…, n) or a slice bound is derived (through local assignments) from http.Response.ContentLength / http.Request.ContentLength or a header value: " +
			"a hostile peer chooses that number, and Grow / make panic (or exhaust memory) on absurd values in the caller's goroutine.",
		Props: []string{"C04"},
		Floor: map[string]int{"v2": 1, "root": 1},
		Run:   runR047,
	})
	core.Register(&core.Rule{
		ID:      "R06.6",
		Title:   "required-field lists never share a backing array",
		Text:    "Every store to RequiredFields.fields is an append to the receiver's own (fresh) list, a make or a literal — never another list's slice: Add appends in place, so an aliased list lets two records overwrite each other's required fields.",
		Props:   []string{"C06"},
		Modules: []string{"v2"}, // the root module's RequiredFields is an immutable []string
		Floor:   map[string]int{"v2": 2},
		Run:     runR066,
	})
	core.Register(&core.Rule{
		ID:    "R09.5",
		Title: "serialization keeps no state between uses",
		Text: "The serialization and hashing packages (restlicodec, fnv1a, restli/equals, restli/batchkeyset) declare no package-level sync.Pool, cache map or other mutable variable reachable from writers (the custom-typeref registry, keyed by type and holding immutable adapters, is the one listed exception), " +
			"and key-set encoders do not memoise: a method that stores an encoding into its receiver requires every mutator of that receiver to reset the same field.",
		Props: []string{"C09", "C16"},
		Floor: map[string]int{"v2": 5, "root": 4},
		Run:   runR095,
	})
	core.Register(&core.Rule{
		ID:    "R10.5",
		Title: "hash and equality helpers cannot tell nil from empty",
		Text:  "In fnv1a and restli/equals no slice- or map-typed value is compared with nil (only len() is consulted): generated Equals treats nil and empty collections as equal, so a hash or comparison that distinguishes them breaks Equal => same hash.",
		Props: []string{"C10"},
		Floor: map[string]int{"v2": 2, "root": 2},
		Run:   runR105,
	})
	core.Register(&core.Rule{
		ID: "R10.6", Generated: true,
		Title: "generated Equals is symmetric in shape",
		Text:  "In every generated Equals, after the identity / nil guards on the two operands, no comparison is nested under a condition that mentions only the receiver's (or only the other's) fields: such a guard makes a.Equals(b) and b.Equals(a) differ.",
		Props: []string{"C10"},
		Floor: map[string]int{"corpus": 20},
		Run:   runR106,
	})
}

func runR154(c *core.Ctx) {
	const rel = "restli"
	p := c.M.Pkg(rel)
	inf := p.TypesInfo
	n, bad := 0, 0
	for _, file := range p.Syntax {
		if strings.HasSuffix(c.M.Fset.File(file.Pos()).Name(), "_test.go") {
			continue
		}
		ast.Inspect(file, func(x ast.Node) bool {
			cl, ok := x.(*ast.CompositeLit)
			if !ok {
				return true
			}
			nn := namedOf(inf.Types[cl].Type)
			if nn == nil || nn.Obj().Pkg() == nil || nn.Obj().Pkg().Path() != "net/url" || nn.Obj().Name() != "URL" {
				return true
			}
			n++
			hasPath, hasRaw := false, false
			for _, el := range cl.Elts {
				if kv, ok := el.(*ast.KeyValueExpr); ok {
					if id, ok := kv.Key.(*ast.Ident); ok {
						switch id.Name {
						case "Path":
							hasPath = true
						case "RawPath":
							hasRaw = true
						}
					}
				}
			}
			if hasPath && !hasRaw {
				bad++
				c.Bad(rel, enclosingFuncName(file, cl.Pos()), fmt.Sprintf("url.URL literal #%d keeps the encoded path", n), cl.Pos(), "the literal sets Path without RawPath: String() re-encodes the decoded path with Go's escaper and the Rest.li encoding of the keys is lost")
			}
			return true
		})
	}
	// newRequest never reassigns its URL variable
	_, fd := mustDecl(c, rel, "newRequest")
	var uObj types.Object
	ast.Inspect(fd.Body, func(x ast.Node) bool {
		if as, ok := x.(*ast.AssignStmt); ok && as.Tok == token.DEFINE && len(as.Rhs) == 1 && uObj == nil {
			if call, ok := core.Unparen(as.Rhs[0]).(*ast.CallExpr); ok {
				if cf := core.Callee(inf, call); cf != nil && cf.Name() == "formatQueryUrl" {
					uObj = core.ObjOf(inf, as.Lhs[0])
				}
			}
		}
		return true
	})
	reassigned := false
	if uObj != nil {
		ast.Inspect(fd.Body, func(x ast.Node) bool {
			if as, ok := x.(*ast.AssignStmt); ok && as.Tok != token.DEFINE {
				for _, l := range as.Lhs {
					if id, ok := core.Unparen(l).(*ast.Ident); ok && core.ObjOf(inf, id) == uObj {
						reassigned = true
					}
				}
			}
			return true
		})
	}
	c.Check(uObj != nil && !reassigned && bad == 0, rel, "newRequest", "the URL built by formatQueryUrl reaches the request unchanged except for RawQuery", fd.Pos(), fmt.Sprintf("%d url.URL literals in the package", n),
		"the request URL is rebuilt or reassigned after formatQueryUrl")
}

func runR047(c *core.Ctx) {
	const rel = "restli"
	p := c.M.Pkg(rel)
	inf := p.TypesInfo
	sinks, bad := 0, 0
	for _, fd := range c.M.FuncDecls(rel) {
		if fd.Body == nil || strings.HasSuffix(c.M.Fset.File(fd.Pos()).Name(), "_test.go") {
			continue
		}
		// tainted locals: assigned from an expression mentioning .ContentLength or Header.Get / strconv of it
		tainted := map[types.Object]bool{}
		isSource := func(e ast.Expr) bool {
			found := false
			ast.Inspect(e, func(x ast.Node) bool {
				switch y := x.(type) {
				case *ast.SelectorExpr:
					if fv, ok := core.ObjOf(inf, y).(*types.Var); ok && fv.IsField() && fv.Name() == "ContentLength" && fv.Pkg() != nil && fv.Pkg().Path() == "net/http" {
						found = true
					}
				case *ast.Ident:
					if tainted[core.ObjOf(inf, y)] {
						found = true
					}
				case *ast.CallExpr:
					if cf := core.Callee(inf, y); cf != nil && cf.Name() == "Get" && core.IsMethod(cf, "net/http", "Header", "Get") {
						found = true
					}
				}
				return !found
			})
			return found
		}
		for changed := true; changed; {
			changed = false
			ast.Inspect(fd.Body, func(x ast.Node) bool {
				if as, ok := x.(*ast.AssignStmt); ok && len(as.Lhs) == len(as.Rhs) {
					for i, l := range as.Lhs {
						if o := core.ObjOf(inf, l); o != nil && !tainted[o] && isSource(as.Rhs[i]) {
							if b, ok := o.Type().Underlying().(*types.Basic); ok && b.Info()&types.IsInteger != 0 {
								tainted[o] = true
								changed = true
							}
						}
					}
				}
				return true
			})
		}
		ast.Inspect(fd.Body, func(x ast.Node) bool {
			call, ok := x.(*ast.CallExpr)
			if !ok {
				return true
			}
			var sizeArgs []ast.Expr
			what := ""
			if cf := core.Callee(inf, call); cf != nil && cf.Name() == "Grow" && (core.IsMethod(cf, "bytes", "Buffer", "Grow") || core.IsMethod(cf, "strings", "Builder", "Grow")) {
				sizeArgs, what = call.Args, "Grow"
			}
			if id, ok := core.Unparen(call.Fun).(*ast.Ident); ok && id.Name == "make" {
				if _, isB := inf.Uses[id].(*types.Builtin); isB && len(call.Args) >= 2 {
					sizeArgs, what = call.Args[1:], "make"
				}
			}
			if what == "" {
				return true
			}
			sinks++
			for _, a := range sizeArgs {
				if isSource(a) {
					bad++
					c.Bad(rel, core.DeclName(fd), fmt.Sprintf("%s size #%d is not peer-controlled", what, ordinal(fd, call)), call.Pos(), "the size derives from Content-Length / a header value chosen by the peer: absurd values panic or exhaust memory")
				}
			}
			return true
		})
	}
	if bad == 0 {
		c.OK(rel, "-", fmt.Sprintf("none of the %d allocation sizes in the package derives from a peer-controlled field", sinks), token.NoPos, "")
	}
}

func runR066(c *core.Ctx) {
	const rel = "restlicodec"
	inf := info(c, rel)
	rfT, _ := mustObj(c, rel, "RequiredFields").(*types.TypeName)
	n := 0
	for _, fd := range c.M.FuncDecls(rel) {
		if fd.Body == nil {
			continue
		}
		ast.Inspect(fd.Body, func(x ast.Node) bool {
			as, ok := x.(*ast.AssignStmt)
			if !ok {
				return true
			}
			for i, l := range as.Lhs {
				base, isF := fieldNamed(inf, l, rfT, "fields")
				if !isF || i >= len(as.Rhs) {
					continue
				}
				n++
				okStore, how := false, ""
				switch r := core.Unparen(as.Rhs[i]).(type) {
				case *ast.CallExpr:
					if id, ok := core.Unparen(r.Fun).(*ast.Ident); ok {
						switch id.Name {
						case "append":
							// append(<same object>.fields, …) or append(nil, …)
							if len(r.Args) >= 1 {
								if b2, isF2 := fieldNamed(inf, r.Args[0], rfT, "fields"); isF2 && core.SameExpr(inf, b2, base) {
									okStore, how = true, "append to its own list"
								}
								if core.IsNil(inf, r.Args[0]) {
									okStore, how = true, "append to nil"
								}
								if conv, ok := core.Unparen(r.Args[0]).(*ast.CallExpr); ok && len(conv.Args) == 1 && core.IsNil(inf, conv.Args[0]) {
									okStore, how = true, "append to nil"
								}
							}
						case "make":
							okStore, how = true, "make"
						}
					}
				case *ast.CompositeLit:
					okStore, how = true, "literal"
				}
				c.Check(okStore, rel, core.DeclName(fd), fmt.Sprintf("store to RequiredFields.fields #%d builds a list of its own", ordinal(fd, as)), as.Pos(), how,
					core.ExprString(as.Rhs[i])+" aliases another list's backing array: a later Add on either list overwrites the other's entries")
			}
			return true
		})
	}
	if n == 0 {
		c.Unknown(rel, "-", "stores to RequiredFields.fields", token.NoPos, "none found")
	}
}

func runR095(c *core.Ctx) {
	mut := mutatingMethods(c)
	for _, rel := range []string{"restlicodec", "fnv1a", "restli/equals", "restli/batchkeyset"} {
		p := c.M.Pkg(rel)
		if p == nil {
			continue
		}
		scope := p.Types.Scope()
		var problems []string
		for _, name := range scope.Names() {
			v, ok := scope.Lookup(name).(*types.Var)
			if !ok {
				continue
			}
			t := v.Type()
			ts := t.String()
			switch {
			case name == "customTyperefAdapters":
				// the registry: LoadOrStore of immutable adapters keyed by type (R17.6)
			case strings.Contains(ts, "sync.Pool"):
				problems = append(problems, name+" is a sync.Pool: objects returned to it carry state into later serializations")
			case isSyncType(t):
				problems = append(problems, name+" is a "+ts+" holding state across calls")
			default:
				// any mutating use outside init
				for _, q := range c.M.Roots {
					for _, file := range q.Syntax {
						if strings.HasSuffix(c.M.Fset.File(file.Pos()).Name(), "_test.go") {
							continue
						}
						par := core.Parents(file)
						ast.Inspect(file, func(x ast.Node) bool {
							id, ok := x.(*ast.Ident)
							if !ok || q.TypesInfo.Uses[id] != v {
								return true
							}
							fn := enclosingFuncName(file, id.Pos())
							if fn == "init" || fn == "(package level)" {
								return true
							}
							if k := classifyUse(c, q.TypesInfo, par, id, mut); strings.HasPrefix(k, "mutates") {
								problems = append(problems, name+" "+k+" in "+fn)
							}
							return true
						})
					}
				}
			}
		}
		c.Check(len(problems) == 0, rel, "-", "package keeps no pool, cache or mutable variable between serializations", token.NoPos, "", strings.Join(dedupe(problems), "; "))
	}
	// memoisation in key sets
	const ks = "restli/batchkeyset"
	p := c.M.Pkg(ks)
	inf := p.TypesInfo
	type store struct {
		field string
		fd    *ast.FuncDecl
	}
	storesBy := map[string]map[string][]string{} // type -> method -> fields stored
	for _, fd := range c.M.FuncDecls(ks) {
		if fd.Body == nil || fd.Recv == nil {
			continue
		}
		recv := recvObj(inf, fd)
		tn := strings.Split(strings.TrimPrefix(strings.TrimPrefix(core.DeclName(fd), "(*"), "("), ")")[0]
		ast.Inspect(fd.Body, func(x ast.Node) bool {
			var lhs []ast.Expr
			switch y := x.(type) {
			case *ast.AssignStmt:
				lhs = y.Lhs
			case *ast.IncDecStmt:
				lhs = []ast.Expr{y.X}
			}
			for _, l := range lhs {
				if _, isIdent := core.Unparen(l).(*ast.Ident); isIdent {
					continue
				}
				if r := rootIdent(l); r != nil && inf.Uses[r] == recv && recv != nil {
					for _, f := range recvSelFields(inf, recv, l) {
						if storesBy[tn] == nil {
							storesBy[tn] = map[string][]string{}
						}
						storesBy[tn][fd.Name.Name] = append(storesBy[tn][fd.Name.Name], f)
					}
				}
			}
			return true
		})
	}
	for tn, methods := range storesBy {
		for m, fields := range methods {
			if !strings.HasPrefix(strings.ToLower(m), "encode") && m != "EncodeQueryParams" {
				continue
			}
			// an encoder stores into its receiver: memoisation; every other storing method must reset the same fields
			for _, f := range dedupe(fields) {
				var missing []string
				for m2, f2 := range methods {
					if m2 == m {
						continue
					}
					has := false
					for _, x := range f2 {
						if x == f {
							has = true
						}
					}
					if !has {
						missing = append(missing, m2)
					}
				}
				// mutators that store nothing at all but call AddKey etc. are covered transitively; list all methods of the type that mutate
				c.Check(len(missing) == 0, ks, "(*"+tn+")."+m, "memoised field "+f+" is reset by every mutator of the key set", token.NoPos, "",
					"the encoder caches into "+f+" but "+strings.Join(missing, ", ")+" change the set without resetting it: a later encoding returns the stale ids")
			}
		}
	}
	c.OK(ks, "-", "key-set encoders checked for memoisation", token.NoPos, fmt.Sprintf("%d types store through their receiver", len(storesBy)))
}

func runR105(c *core.Ctx) {
	for _, rel := range []string{"fnv1a", "restli/equals"} {
		p := c.M.Pkg(rel)
		inf := p.TypesInfo
		var problems []string
		for _, file := range p.Syntax {
			if strings.HasSuffix(c.M.Fset.File(file.Pos()).Name(), "_test.go") {
				continue
			}
			ast.Inspect(file, func(x ast.Node) bool {
				be, ok := x.(*ast.BinaryExpr)
				if !ok || (be.Op != token.EQL && be.Op != token.NEQ) {
					return true
				}
				var other ast.Expr
				switch {
				case core.IsNil(inf, be.Y):
					other = be.X
				case core.IsNil(inf, be.X):
					other = be.Y
				default:
					return true
				}
				t := inf.Types[other].Type
				if t == nil {
					return true
				}
				// type parameters constrained to slices/maps count too
				switch t.Underlying().(type) {
				case *types.Slice, *types.Map:
					problems = append(problems, fmt.Sprintf("%s: %s is compared with nil", enclosingFuncName(file, be.Pos()), core.ExprString(other)))
				}
				return true
			})
		}
		c.Check(len(problems) == 0, rel, "-", "no slice or map is compared with nil (nil and empty are the same value)", token.NoPos, "", strings.Join(problems, "; "))
	}
}

func runR106(c *core.Ctx) {
	if c.Corpus.Failure != "" {
		return
	}
	for _, g := range genModel(c) {
		if g.Kind != "record" && g.Kind != "union" && g.Kind != "complexkey" {
			continue
		}
		eq := g.Methods["Equals"]
		if eq == nil {
			continue
		}
		inf := g.inf()
		recv, other := recvObj(inf, eq), otherParam(inf, eq)
		var problems []string
		ast.Inspect(eq.Body, func(n ast.Node) bool {
			ifs, ok := n.(*ast.IfStmt)
			if !ok {
				return true
			}
			mine := recvSelFields(inf, recv, ifs.Cond)
			theirs := recvSelFields(inf, other, ifs.Cond)
			if (len(mine) > 0) != (len(theirs) > 0) {
				problems = append(problems, "the condition "+core.ExprString(ifs.Cond)+" consults only one operand's fields: a.Equals(b) and b.Equals(a) can differ")
			}
			return true
		})
		c.Check(len(problems) == 0, g.Rel, g.Name, "Equals treats its two operands symmetrically", eq.Pos(), "", strings.Join(dedupe(problems), "; "))
	}
}

func init() {
	core.Register(&core.Rule{
		ID: "R11.6", Generated: true,
		Title: "a delete delegated to an included record keeps its verdict",
		Text: "In every generated _PartialUpdate.UnmarshalDeleteField (and UnmarshalSetField's delegations are covered by R06.3G), the error returned by a delegated UnmarshalDeleteField call is returned to the caller on every path unless it was compared equal to the no-such-field sentinel (or to nil): " +
			"otherwise the cannot-delete-a-required-field verdict of an included record is overwritten by the next lookup and the delete is accepted.",
		Props: []string{"C11"},
		Floor: map[string]int{"corpus": 10},
		Run:   runR116,
	})
}

func runR116(c *core.Ctx) {
	if c.Corpus.Failure != "" {
		return
	}
	for _, g := range genModel(c) {
		if !strings.HasSuffix(g.Name, "_PartialUpdate") {
			continue
		}
		ud := g.Methods["UnmarshalDeleteField"]
		if ud == nil {
			continue
		}
		inf := g.inf()
		isDelegation := func(e ast.Expr) bool {
			call, ok := core.Unparen(e).(*ast.CallExpr)
			if !ok {
				return false
			}
			f := core.Callee(inf, call)
			return f != nil && f.Name() == "UnmarshalDeleteField"
		}
		isSentinel := func(e ast.Expr) bool {
			o := core.ObjOf(inf, e)
			return o != nil && o.Name() == "NoSuchFieldErr"
		}
		var errObj types.Object // the variable holding the pending verdict
		var problems []string
		delegations := 0
		const (
			clean   = 0
			pending = 1
			cleared = 2
		)
		fl := core.NewFlow(c.M, inf, ud.Body)
		fl.Run(&core.Automaton{
			Init: clean,
			Node: func(st int, n ast.Node) int {
				switch x := n.(type) {
				case *ast.AssignStmt:
					if len(x.Lhs) == 1 && len(x.Rhs) == 1 && isDelegation(x.Rhs[0]) {
						o := core.ObjOf(inf, x.Lhs[0])
						if st == pending {
							problems = append(problems, c.M.Position(x.Pos())+": the verdict of the previous delegated call is overwritten before it was returned or found to be the no-such-field sentinel")
						}
						errObj = o
						return pending
					}
					if st == pending {
						for _, o := range core.AssignedObjs(inf, x) {
							if o == errObj {
								problems = append(problems, c.M.Position(x.Pos())+": the delegated verdict is overwritten")
								return clean
							}
						}
					}
				case *ast.ReturnStmt:
					if st == pending {
						ok := len(x.Results) == 0 // named result
						if len(x.Results) == 1 && core.ObjOf(inf, x.Results[0]) == errObj && errObj != nil {
							ok = true
						}
						if !ok {
							problems = append(problems, c.M.Position(x.Pos())+": returns something else while a delegated verdict other than the sentinel may be pending")
						}
					}
				}
				return st
			},
			Edge: func(st int, facts []core.Fact) (int, bool) {
				if st != pending {
					return st, true
				}
				for _, f := range facts {
					be, ok := core.Unparen(f.Expr).(*ast.BinaryExpr)
					if !ok || (be.Op != token.EQL && be.Op != token.NEQ) {
						continue
					}
					var other ast.Expr
					switch {
					case core.ObjOf(inf, be.X) == errObj:
						other = be.Y
					case core.ObjOf(inf, be.Y) == errObj:
						other = be.X
					default:
						continue
					}
					equal := (be.Op == token.EQL) == f.Val
					if equal && (isSentinel(other) || core.IsNil(inf, other)) {
						return cleared, true
					}
				}
				return st, true
			},
		})
		ast.Inspect(ud.Body, func(n ast.Node) bool {
			if call, ok := n.(*ast.CallExpr); ok && isDelegation(call) {
				delegations++
			}
			return true
		})
		c.Check(len(problems) == 0 && delegations > 0, g.Rel, g.Name, "every delegated delete verdict is returned unless it is the sentinel", ud.Pos(), fmt.Sprintf("%d delegated calls", delegations),
			strings.Join(dedupe(problems), "; ")+map[bool]string{true: "no delegated UnmarshalDeleteField call found", false: ""}[delegations == 0])
	}
}

func init() {
	core.Register(&core.Rule{
		ID:    "R02.5",
		Title: "paths are read in their encoded form only",
		Text: "Package restli (non-test) never reads the decoded url.URL.Path (reads go through EscapedPath(), or RawPath where it is known to be set). URL.Path is decoded once by net/http and the ROR2 path reader decodes again; " +
			"URL.RawPath is empty whenever Go's default encoding equals what was received, so a fallback to Path double-decodes keys like `100%` or `(1)`. Stores (clearing the fields of a base URL) are allowed.",
		Props: []string{"C02", "C15"},
		Floor: map[string]int{"v2": 2, "root": 2},
		Run:   runR025,
	})
}

func runR025(c *core.Ctx) {
	const rel = "restli"
	p := c.M.Pkg(rel)
	inf := p.TypesInfo
	reads, escaped := 0, 0
	for _, file := range p.Syntax {
		if strings.HasSuffix(c.M.Fset.File(file.Pos()).Name(), "_test.go") {
			continue
		}
		par := core.Parents(file)
		ast.Inspect(file, func(x ast.Node) bool {
			switch y := x.(type) {
			case *ast.CallExpr:
				if f := core.Callee(inf, y); f != nil && core.IsMethod(f, "net/url", "URL", "EscapedPath") {
					escaped++
					c.OK(rel, enclosingFuncName(file, y.Pos()), fmt.Sprintf("path read #%d uses EscapedPath()", escaped), y.Pos(), "")
				}
			case *ast.SelectorExpr:
				fv, ok := core.ObjOf(inf, y).(*types.Var)
				if !ok || !fv.IsField() || fv.Pkg() == nil || fv.Pkg().Path() != "net/url" || fv.Name() != "Path" {
					return true
				}
				// a store?
				if as, ok := par[y].(*ast.AssignStmt); ok {
					for _, l := range as.Lhs {
						if l == ast.Expr(y) {
							return true
						}
					}
				}
				reads++
				c.Bad(rel, enclosingFuncName(file, y.Pos()), fmt.Sprintf("no read of URL.%s #%d", fv.Name(), reads), y.Pos(),
					"reads "+core.ExprString(y)+": the decoded path reaches routing / key decoding instead of EscapedPath()")
			}
			return true
		})
	}
	if escaped == 0 {
		c.Unknown(rel, "-", "EscapedPath() call sites", token.NoPos, "none found: where does the server take the request path from?")
	}
}

func init() {
	core.Register(&core.Rule{
		ID:    "R15.5",
		Title: "the root resource is matched against the last, slash-normalised segment of the context path",
		Text: "In formatQueryUrl every strings.* call whose pattern mentions the root resource name is one of the enumerated idioms — LastIndex (with R15.3's boundary test), HasSuffix or TrimSuffix — and its subject derives from a strings.TrimSuffix(…, \"/\") / TrimRight(…, \"/\") result; " +
			"strings.Index / Contains / HasPrefix / TrimPrefix / Replace on the root name are reported: a first-occurrence search is hidden by an earlier segment that shares the prefix (/searcher/search), and matching before the trailing slash is removed misses /api/search/. " +
			"Comparison of whole segments (== against elements of strings.Split) is accepted as well.",
		Props: []string{"C15"},
		Floor: map[string]int{"v2": 1, "root": 1},
		Run:   runR155,
	})
	core.Register(&core.Rule{
		ID:    "R15.6",
		Title: "the resolver's URL is copied, never written through",
		Text: "In formatQueryUrl and newRequest no assignment stores through a *url.URL (field store or *p = …): the base is cleared on a local struct copy (base := *hostUrl). " +
			"Resolvers hand out the same pointer on every call, so a store through it strips the context path from every later request (and races with concurrent ones).",
		Props: []string{"C15", "C17"},
		Floor: map[string]int{"v2": 1, "root": 1},
		Run:   runR156,
	})
}

func runR155(c *core.Ctx) {
	const rel = "restli"
	inf := info(c, rel)
	_, fd := mustDecl(c, rel, "(*Client).formatQueryUrl")
	// the root variable: assigned from rp.RootResource()
	var rootObj types.Object
	defs := map[types.Object][]ast.Expr{}
	ast.Inspect(fd.Body, func(x ast.Node) bool {
		if as, ok := x.(*ast.AssignStmt); ok && len(as.Lhs) == len(as.Rhs) {
			for i, l := range as.Lhs {
				o := core.ObjOf(inf, l)
				if o == nil {
					continue
				}
				defs[o] = append(defs[o], as.Rhs[i])
				if call, ok := core.Unparen(as.Rhs[i]).(*ast.CallExpr); ok {
					if f := core.Callee(inf, call); f != nil && f.Name() == "RootResource" {
						rootObj = o
					}
				}
			}
		}
		return true
	})
	if rootObj == nil {
		c.Unknown(rel, "(*Client).formatQueryUrl", "root resource variable", fd.Pos(), "no local assigned from RootResource()")
		return
	}
	var normalised func(e ast.Expr, depth int) bool
	normalised = func(e ast.Expr, depth int) bool {
		found := false
		ast.Inspect(e, func(x ast.Node) bool {
			switch y := x.(type) {
			case *ast.CallExpr:
				f := core.Callee(inf, y)
				if (core.IsFunc(f, "strings", "TrimSuffix") || core.IsFunc(f, "strings", "TrimRight")) && len(y.Args) == 2 {
					if v := core.ConstOf(inf, y.Args[1]); v != nil && v.ExactString() == `"/"` {
						found = true
					}
				}
			case *ast.Ident:
				if o := inf.Uses[y]; o != nil && depth < 4 {
					for _, d := range defs[o] {
						if normalised(d, depth+1) {
							found = true
						}
					}
				}
			}
			return !found
		})
		return found
	}
	n := 0
	ast.Inspect(fd.Body, func(x ast.Node) bool {
		call, ok := x.(*ast.CallExpr)
		if !ok {
			return true
		}
		f := core.Callee(inf, call)
		if f == nil || f.Pkg() == nil || f.Pkg().Path() != "strings" || len(call.Args) < 2 {
			return true
		}
		mentionsRoot := false
		for _, a := range call.Args[1:] {
			if mentions(inf, a, rootObj) {
				mentionsRoot = true
			}
		}
		if !mentionsRoot {
			return true
		}
		n++
		desc := fmt.Sprintf("root match #%d (strings.%s) looks at the last segment of a normalised path", n, f.Name())
		switch f.Name() {
		case "LastIndex", "HasSuffix", "TrimSuffix":
			c.Check(normalised(call.Args[0], 0), rel, "(*Client).formatQueryUrl", desc, call.Pos(), "subject derives from TrimSuffix(…, \"/\")",
				"the subject "+core.ExprString(call.Args[0])+" still carries the resolver's trailing slash when the root name is matched: a base ending in /"+"<root>/ keeps its root segment and the request has it twice")
		default:
			c.Bad(rel, "(*Client).formatQueryUrl", desc, call.Pos(), "strings."+f.Name()+" does not anchor the match at the last segment: an earlier segment sharing the root's prefix (/searcher/search) hides the final one")
		}
		return true
	})
	// whole-segment comparison idiom
	ast.Inspect(fd.Body, func(x ast.Node) bool {
		if be, ok := x.(*ast.BinaryExpr); ok && (be.Op == token.EQL || be.Op == token.NEQ) {
			if core.ObjOf(inf, be.X) == rootObj || core.ObjOf(inf, be.Y) == rootObj {
				n++
				c.OK(rel, "(*Client).formatQueryUrl", fmt.Sprintf("root match #%d compares a whole segment", n), be.Pos(), "")
			}
		}
		return true
	})
	if n == 0 {
		c.Unknown(rel, "(*Client).formatQueryUrl", "root resource matching", fd.Pos(), "no expression matches the root resource name against the context path: how is a context ending in the root resource handled?")
	}
}

func runR156(c *core.Ctx) {
	const rel = "restli"
	inf := info(c, rel)
	for _, name := range []string{"(*Client).formatQueryUrl", "newRequest"} {
		_, fd := mustDecl(c, rel, name)
		var problems []string
		stores := 0
		ast.Inspect(fd.Body, func(x ast.Node) bool {
			as, ok := x.(*ast.AssignStmt)
			if !ok {
				return true
			}
			for _, l := range as.Lhs {
				var through ast.Expr
				switch t := core.Unparen(l).(type) {
				case *ast.StarExpr:
					through = t.X
				case *ast.SelectorExpr:
					if fv, ok := core.ObjOf(inf, t).(*types.Var); ok && fv.IsField() {
						through = t.X
						stores++
					}
				}
				if through == nil {
					continue
				}
				if pt, ok := inf.Types[through].Type.(*types.Pointer); ok {
					if nn := namedOf(pt.Elem()); nn != nil && nn.Obj().Pkg() != nil && nn.Obj().Pkg().Path() == "net/url" && nn.Obj().Name() == "URL" {
						// a pointer this function created itself (url.Parse result, &local) is its own
						if o := core.ObjOf(inf, through); o != nil && ownedURL(inf, fd, o) {
							continue
						}
						problems = append(problems, c.M.Position(l.Pos())+": "+core.ExprString(l)+" stores through a *url.URL this function did not create")
					}
				}
			}
			return true
		})
		c.Check(len(problems) == 0, rel, name, "no store through a URL pointer obtained from elsewhere", fd.Pos(), fmt.Sprintf("%d field stores inspected", stores), strings.Join(problems, "; "))
	}
}

// ownedURL: every assignment to o in fd is from url.Parse / (*URL).Parse / &local / new.
func ownedURL(inf *types.Info, fd *ast.FuncDecl, o types.Object) bool {
	n, ok := 0, true
	ast.Inspect(fd.Body, func(x ast.Node) bool {
		as, isAs := x.(*ast.AssignStmt)
		if !isAs {
			return true
		}
		for i, l := range as.Lhs {
			if core.ObjOf(inf, l) != o {
				continue
			}
			n++
			var rhs ast.Expr
			if len(as.Rhs) == len(as.Lhs) {
				rhs = as.Rhs[i]
			} else if len(as.Rhs) == 1 {
				rhs = as.Rhs[0]
			}
			good := false
			switch r := core.Unparen(rhs).(type) {
			case *ast.CallExpr:
				f := core.Callee(inf, r)
				if core.IsFunc(f, "net/url", "Parse") || core.IsFunc(f, "net/url", "ParseRequestURI") || (f != nil && f.Name() == "formatQueryUrl") {
					good = true
				}
				if id, isId := core.Unparen(r.Fun).(*ast.Ident); isId && id.Name == "new" {
					good = true
				}
			case *ast.UnaryExpr:
				if r.Op == token.AND {
					good = true
				}
			}
			if !good {
				ok = false
			}
		}
		return true
	})
	return ok && n > 0
}

func init() {
	core.Register(&core.Rule{
		ID:    "R17.7",
		Title: "pooled objects do not outlive their Put",
		Text: "In every non-test function of the module that hands a local object to (*sync.Pool).Put (directly or deferred), nothing that aliases the object — the object itself, a field of reference type, the result of a method on it that returns a slice, pointer, map or interface (bytes.Buffer.Bytes), a slice of those — " +
			"is returned, assigned to a result variable, or stored outside the function's own locals. A later Get hands the same memory to another request, which then overwrites what the first caller still holds. " +
			"A synthetic positive control (a function returning buf.Bytes() of a pooled buffer) must be recognised on every run.",
		Props: []string{"C17", "C14"},
		Floor: map[string]int{"v2": 1, "root": 1},
		Run:   runR177,
	})
}

// pooledEscapes lists the escapes of pooled objects in one function body.
func pooledEscapes(fset interface {
	Position(token.Pos) token.Position
}, inf *types.Info, ftype *ast.FuncType, body *ast.BlockStmt) (puts int, problems []string) {
	pooled := map[types.Object]bool{}
	ast.Inspect(body, func(x ast.Node) bool {
		if call, ok := x.(*ast.CallExpr); ok && len(call.Args) == 1 {
			if f := core.Callee(inf, call); f != nil && core.IsMethod(f, "sync", "Pool", "Put") {
				puts++
				if o := core.ObjOf(inf, call.Args[0]); o != nil {
					pooled[o] = true
				}
			}
		}
		return true
	})
	if len(pooled) == 0 {
		return puts, nil
	}
	results := map[types.Object]bool{}
	if ftype.Results != nil {
		for _, f := range ftype.Results.List {
			for _, n := range f.Names {
				results[inf.Defs[n]] = true
			}
		}
	}
	isRef := func(t types.Type) bool {
		if t == nil {
			return false
		}
		switch t.Underlying().(type) {
		case *types.Slice, *types.Pointer, *types.Map, *types.Interface, *types.Chan:
			return true
		}
		return false
	}
	aliases := map[types.Object]bool{}
	for o := range pooled {
		aliases[o] = true
	}
	var alias func(e ast.Expr) bool
	alias = func(e ast.Expr) bool {
		switch y := core.Unparen(e).(type) {
		case *ast.Ident:
			return aliases[core.ObjOf(inf, y)]
		case *ast.SliceExpr:
			return alias(y.X)
		case *ast.StarExpr:
			return false // a copy of the pointee
		case *ast.UnaryExpr:
			return y.Op == token.AND && alias(y.X)
		case *ast.SelectorExpr:
			if fv, ok := core.ObjOf(inf, y).(*types.Var); ok && fv.IsField() {
				return alias(y.X) && isRef(fv.Type())
			}
		case *ast.TypeAssertExpr:
			return alias(y.X)
		case *ast.CallExpr:
			if tv, ok := inf.Types[y.Fun]; ok && tv.IsType() {
				// conversion: string(b) copies, []byte(s) copies; named-slice conversions alias
				if len(y.Args) == 1 && alias(y.Args[0]) {
					if b, ok := tv.Type.Underlying().(*types.Basic); ok && b.Info()&types.IsString != 0 {
						return false
					}
					return true
				}
				return false
			}
			if id, ok := core.Unparen(y.Fun).(*ast.Ident); ok && id.Name == "append" && len(y.Args) > 0 {
				return alias(y.Args[0])
			}
			if sel, ok := core.Unparen(y.Fun).(*ast.SelectorExpr); ok && alias(sel.X) {
				if sig, ok := inf.Types[y.Fun].Type.(*types.Signature); ok && sig.Results().Len() >= 1 {
					return isRef(sig.Results().At(0).Type())
				}
			}
		}
		return false
	}
	isOwnLocal := func(l ast.Expr) (types.Object, bool) {
		id, ok := core.Unparen(l).(*ast.Ident)
		if !ok {
			return nil, false
		}
		o := core.ObjOf(inf, id)
		if o == nil || results[o] || o.Parent() == nil || o.Pkg() == nil || o.Parent() == o.Pkg().Scope() {
			return o, false
		}
		return o, o.Pos() >= body.Pos() && o.Pos() <= body.End()
	}
	for changed := true; changed; {
		changed = false
		ast.Inspect(body, func(x ast.Node) bool {
			if as, ok := x.(*ast.AssignStmt); ok && len(as.Lhs) == len(as.Rhs) {
				for i, l := range as.Lhs {
					if o, own := isOwnLocal(l); own && !aliases[o] && alias(as.Rhs[i]) {
						aliases[o] = true
						changed = true
					}
				}
			}
			return true
		})
	}
	seen := map[string]bool{}
	report := func(pos token.Pos, msg string) {
		m := fmt.Sprintf("%s:%d: %s", shortFile(fset.Position(pos).Filename), fset.Position(pos).Line, msg)
		if !seen[m] {
			seen[m] = true
			problems = append(problems, m)
		}
	}
	ast.Inspect(body, func(x ast.Node) bool {
		switch y := x.(type) {
		case *ast.FuncLit:
			return false
		case *ast.ReturnStmt:
			for _, r := range y.Results {
				if alias(r) {
					report(r.Pos(), "returns "+core.ExprString(r)+", which aliases an object handed back to the pool")
				}
			}
		case *ast.AssignStmt:
			if len(y.Lhs) != len(y.Rhs) {
				return true
			}
			for i, l := range y.Lhs {
				if _, own := isOwnLocal(l); !own && alias(y.Rhs[i]) {
					if id, ok := core.Unparen(l).(*ast.Ident); ok && id.Name == "_" {
						continue
					}
					report(l.Pos(), core.ExprString(l)+" = "+core.ExprString(y.Rhs[i])+" keeps memory of an object handed back to the pool")
				}
			}
		}
		return true
	})
	return puts, problems
}

func shortFile(name string) string {
	if i := strings.LastIndex(name, "/"); i >= 0 {
		return name[i+1:]
	}
	return name
}

func runR177(c *core.Ctx) {
	funcs, puts := 0, 0
	for _, p := range c.M.Roots {
		inf := p.TypesInfo
		rel := c.M.Rel(p.PkgPath)
		for _, file := range p.Syntax {
			if strings.HasSuffix(c.M.Fset.File(file.Pos()).Name(), "_test.go") {
				continue
			}
			for _, d := range file.Decls {
				fd, ok := d.(*ast.FuncDecl)
				if !ok || fd.Body == nil {
					continue
				}
				funcs++
				n, problems := pooledEscapes(c.M.Fset, inf, fd.Type, fd.Body)
				puts += n
				if n > 0 {
					c.Check(len(problems) == 0, rel, core.DeclName(fd), "nothing aliasing a pooled object leaves the function", fd.Pos(), fmt.Sprintf("%d Put calls", n), strings.Join(problems, "; "))
				}
			}
		}
	}
	c.OK("-", "-", "functions scanned for sync.Pool.Put", token.NoPos, fmt.Sprintf("%d functions, %d Put calls", funcs, puts))
	// positive control
	const ctl = `package ctl
import ("bytes"; "sync")
var pool = sync.Pool{New: func() any { return new(bytes.Buffer) }}
func leak(p []byte) (out []byte) {
	b := pool.Get().(*bytes.Buffer)
	b.Reset()
	defer pool.Put(b)
	b.Write(p)
	out = b.Bytes()
	return out
}
func fine(p []byte) string {
	b := pool.Get().(*bytes.Buffer)
	b.Reset()
	defer pool.Put(b)
	b.Write(p)
	return b.String()
}`
	f, err := parser.ParseFile(c.M.Fset, "pool_control.go", ctl, 0)
	if err != nil {
		c.Unknown("-", "-", "positive control", token.NoPos, err.Error())
		return
	}
	inf := &types.Info{Types: map[ast.Expr]types.TypeAndValue{}, Defs: map[*ast.Ident]types.Object{}, Uses: map[*ast.Ident]types.Object{}, Selections: map[*ast.SelectorExpr]*types.Selection{}}
	imp := importerFunc(func(path string) (*types.Package, error) {
		if p := c.M.AllByPath[path]; p != nil && p.Types != nil {
			return p.Types, nil
		}
		return nil, fmt.Errorf("package %s not in the loaded closure", path)
	})
	if _, err := (&types.Config{Importer: imp}).Check("ctl", c.M.Fset, []*ast.File{f}, inf); err != nil {
		c.Unknown("-", "-", "positive control", token.NoPos, "control does not type-check: "+err.Error())
		return
	}
	got := map[string]int{}
	for _, d := range f.Decls {
		if fd, ok := d.(*ast.FuncDecl); ok && fd.Body != nil {
			_, problems := pooledEscapes(c.M.Fset, inf, fd.Type, fd.Body)
			got[fd.Name.Name] = len(problems)
		}
	}
	c.Check(got["leak"] > 0 && got["fine"] == 0, "-", "-", "positive control: a pooled buffer's Bytes() escaping is recognised, String() is not reported", token.NoPos,
		fmt.Sprintf("leak=%d fine=%d", got["leak"], got["fine"]), fmt.Sprintf("control verdicts leak=%d fine=%d", got["leak"], got["fine"]))
}

type importerFunc func(path string) (*types.Package, error)

func (f importerFunc) Import(path string) (*types.Package, error) { return f(path) }

func init() {
	core.Register(&core.Rule{
		ID:    "R17.8",
		Title: "request-time closures write no variable captured at registration time",
		Text: "In package restli every function literal that takes a *RequestContext, *http.Request or http.ResponseWriter (code that runs once per request, concurrently) " +
			"never assigns, increments, takes the address of, or decodes into a variable declared outside itself (one instance shared by every request to that route): " +
			"such a variable makes one request observe another's parameters and is a data race. Reads of captured configuration are fine.",
		Props: []string{"C17"},
		Floor: map[string]int{"v2": 10, "root": 10},
		Run:   runR178,
	})
}

func runR178(c *core.Ctx) {
	const rel = "restli"
	p := c.M.Pkg(rel)
	inf := p.TypesInfo
	isRequestScoped := func(ft *ast.FuncType) bool {
		if ft.Params == nil {
			return false
		}
		for _, f := range ft.Params.List {
			t := inf.Types[f.Type].Type
			if t == nil {
				continue
			}
			s := t.String()
			if strings.HasSuffix(s, "restli.RequestContext") || s == "*net/http.Request" || s == "net/http.ResponseWriter" {
				return true
			}
		}
		return false
	}
	n := 0
	for _, file := range p.Syntax {
		if strings.HasSuffix(c.M.Fset.File(file.Pos()).Name(), "_test.go") {
			continue
		}
		var visit func(node ast.Node, inRequest bool)
		visit = func(node ast.Node, inRequest bool) {
			ast.Inspect(node, func(x ast.Node) bool {
				fl, ok := x.(*ast.FuncLit)
				if !ok || x == node {
					return true
				}
				if inRequest || !isRequestScoped(fl.Type) {
					visit(fl.Body, inRequest)
					return false
				}
				n++
				// fl is an outermost request-scoped closure
				captured := func(e ast.Expr) types.Object {
					r := rootIdent(e)
					if r == nil {
						return nil
					}
					v, ok := inf.Uses[r].(*types.Var)
					if !ok || v.IsField() || v.Pkg() == nil || v.Parent() == v.Pkg().Scope() {
						return nil // package-level state is R17.1's business
					}
					if v.Pos() >= fl.Pos() && v.Pos() <= fl.End() {
						return nil
					}
					return v
				}
				var problems []string
				ast.Inspect(fl.Body, func(y ast.Node) bool {
					switch z := y.(type) {
					case *ast.AssignStmt:
						if z.Tok == token.DEFINE {
							return true
						}
						for _, l := range z.Lhs {
							if _, isIdent := core.Unparen(l).(*ast.Ident); !isIdent {
								// a store through a captured pointer/map/slice: shared unless the base is request-local
								if v := captured(l); v != nil && storeThroughReference(inf, l) {
									problems = append(problems, c.M.Position(l.Pos())+": stores into "+core.ExprString(l)+" through the captured "+v.Name())
								}
								continue
							}
							if v := captured(l); v != nil {
								problems = append(problems, c.M.Position(l.Pos())+": assigns the captured variable "+v.Name()+" (one instance for every request)")
							}
						}
					case *ast.IncDecStmt:
						if v := captured(z.X); v != nil {
							problems = append(problems, c.M.Position(z.Pos())+": increments the captured variable "+v.Name())
						}
					case *ast.UnaryExpr:
						if z.Op == token.AND {
							if _, isLit := core.Unparen(z.X).(*ast.CompositeLit); !isLit {
								if v := captured(z.X); v != nil {
									problems = append(problems, c.M.Position(z.Pos())+": takes the address of the captured variable "+v.Name())
								}
							}
						}
					}
					return true
				})
				c.Check(len(problems) == 0, rel, enclosingFuncName(file, fl.Pos()), fmt.Sprintf("request closure #%d writes only its own variables", ordinalIn(file, fl)), fl.Pos(), "", strings.Join(dedupe(problems), "; "))
				return false
			})
		}
		visit(file, false)
	}
	if n == 0 {
		c.Unknown(rel, "-", "request-scoped closures", token.NoPos, "none found")
	}
}

func init() {
	core.Register(&core.Rule{
		ID:    "R16.7",
		Title: "complex keys are recognised before simple keys",
		Text: "In NewBatchKeySet's type switch the ComplexKey[K] case precedes the SimpleKey[K] case. Generated complex keys carry both method sets (Equals/ComputeHash over key and $params, ComplexKeyEquals/ComputeComplexKeyHash over the key part only; confirmed in corpus t-ckey), " +
			"and a type switch takes the first matching case: with SimpleKey first, keys equal up to $params are no longer duplicates and response keys (which carry no $params) are not found.",
		Props: []string{"C16"},
		Floor: map[string]int{"v2": 1, "root": 1},
		Run:   runR167,
	})
}

func runR167(c *core.Ctx) {
	const rel = "restli/batchkeyset"
	inf := info(c, rel)
	_, fd := mustDecl(c, rel, "NewBatchKeySet")
	ck, _ := mustObj(c, rel, "ComplexKey").(*types.TypeName)
	sk, _ := mustObj(c, rel, "SimpleKey").(*types.TypeName)
	pos := map[*types.TypeName]int{}
	n := 0
	ast.Inspect(fd.Body, func(x ast.Node) bool {
		ts, ok := x.(*ast.TypeSwitchStmt)
		if !ok {
			return true
		}
		for i, cl := range ts.Body.List {
			for _, e := range cl.(*ast.CaseClause).List {
				if nn := namedOf(inf.Types[e].Type); nn != nil {
					if _, seen := pos[nn.Obj()]; !seen {
						pos[nn.Obj()] = i + 1
					}
				}
			}
		}
		n++
		return true
	})
	c.Check(n == 1 && pos[ck] > 0 && pos[sk] > 0 && pos[ck] < pos[sk], rel, "NewBatchKeySet", "the ComplexKey case precedes the SimpleKey case", fd.Pos(),
		fmt.Sprintf("ComplexKey is case %d, SimpleKey is case %d", pos[ck], pos[sk]),
		fmt.Sprintf("type switches=%d, ComplexKey is case %d, SimpleKey is case %d: a complex key is treated as a simple key and compared including $params", n, pos[ck], pos[sk]))
}

func init() {
	core.Register(&core.Rule{
		ID:    "R06.7",
		Title: "only the outermost record is at input start",
		Text: "Every implementation of rawReader.atInputStart is either position-based (compares the cursor with 0 / asks the lexer, so it turns false as soon as anything is consumed) or flag-based; " +
			"for a flag-based reader every call of the element callback in its ReadMap and ReadArray is dominated by an assignment of false to the flag. " +
			"Otherwise a nested record believes it is the outermost one, raises the missing-fields error as soon as it ends, and the fields after it are neither decoded nor reported.",
		Props: []string{"C06"},
		Floor: map[string]int{"v2": 4, "root": 4},
		Run:   runR067,
	})
}

func runR067(c *core.Ctx) {
	const rel = "restlicodec"
	inf := info(c, rel)
	n := 0
	for _, fd := range c.M.FuncDecls(rel) {
		if fd.Body == nil || fd.Recv == nil || fd.Name.Name != "atInputStart" {
			continue
		}
		n++
		name := core.DeclName(fd)
		recv := recvObj(inf, fd)
		// shape of the single return
		rets := core.ReturnsIn(fd.Body)
		if len(rets) != 1 || len(rets[0].Results) != 1 {
			c.Unknown(rel, name, "atInputStart has a recognised shape", fd.Pos(), "not a single return expression")
			continue
		}
		res := core.Unparen(rets[0].Results[0])
		var flag *types.Var
		switch x := res.(type) {
		case *ast.BinaryExpr:
			if v := core.ConstOf(inf, x.Y); x.Op == token.EQL && v != nil && v.ExactString() == "0" {
				c.OK(rel, name, "atInputStart is position-based", fd.Pos(), core.ExprString(res))
				continue
			}
		case *ast.CallExpr:
			if f := core.Callee(inf, x); f != nil && f.Name() == "IsStart" {
				c.OK(rel, name, "atInputStart is position-based", fd.Pos(), core.ExprString(res))
				continue
			}
			if f := core.Callee(inf, x); f != nil && f.Name() == "atInputStart" {
				c.OK(rel, name, "atInputStart delegates to the embedded reader", fd.Pos(), core.ExprString(res))
				continue
			}
		case *ast.SelectorExpr:
			if fv, ok := core.ObjOf(inf, x).(*types.Var); ok && fv.IsField() && rootIdent(x) != nil && inf.Uses[rootIdent(x)] == recv {
				flag = fv
			}
		case *ast.Ident:
			if v := core.ConstOf(inf, x); v != nil {
				c.OK(rel, name, "atInputStart is constant", fd.Pos(), core.ExprString(res))
				continue
			}
		}
		if flag == nil {
			c.Unknown(rel, name, "atInputStart has a recognised shape", fd.Pos(), "returns "+core.ExprString(res))
			continue
		}
		// flag-based: ReadMap / ReadArray of the same receiver type
		rt := strings.TrimSuffix(strings.TrimPrefix(name, "("), ").atInputStart")
		for _, m := range []string{"ReadMap", "ReadArray"} {
			mf := c.M.LookupFunc(rel, "("+rt+")."+m)
			if mf == nil {
				c.Unknown(rel, "("+rt+")."+m, "flag-based reader has the method", fd.Pos(), "not found")
				continue
			}
			md := c.M.Decl(mf)
			var cb types.Object
			if md.Type.Params != nil && len(md.Type.Params.List) == 1 && len(md.Type.Params.List[0].Names) == 1 {
				cb = inf.Defs[md.Type.Params.List[0].Names[0]]
			}
			calls, bad := 0, 0
			core.NewFlow(c.M, inf, md.Body).Run(&core.Automaton{
				Init: 0,
				Node: func(st int, node ast.Node) int {
					// calls of the callback in this node (evaluated before an assignment in the same statement takes effect)
					core.WalkNoFuncLit(node, func(y ast.Node) bool {
						if call, ok := y.(*ast.CallExpr); ok && core.ObjOf(inf, call.Fun) == cb && cb != nil {
							calls++
							if st != 1 {
								bad++
							}
						}
						return true
					})
					if as, ok := node.(*ast.AssignStmt); ok && len(as.Lhs) == len(as.Rhs) {
						for i, l := range as.Lhs {
							if sel, ok := core.Unparen(l).(*ast.SelectorExpr); ok && core.ObjOf(inf, sel) == flag {
								if v := core.ConstOf(inf, as.Rhs[i]); v != nil && v.ExactString() == "false" {
									st = 1
								} else {
									st = 0
								}
							}
						}
					}
					return st
				},
			})
			c.Check(calls > 0 && bad == 0, rel, "("+rt+")."+m, "the element callback runs with "+flag.Name()+" == false", md.Pos(), fmt.Sprintf("%d callback evaluations", calls),
				fmt.Sprintf("%d of %d evaluations of the callback are reachable without %s having been set to false: nested records report missing fields on their own", bad, calls, flag.Name()))
		}
	}
	if n < 3 {
		c.Unknown(rel, "-", "atInputStart implementations", token.NoPos, fmt.Sprintf("found %d", n))
	}
}
