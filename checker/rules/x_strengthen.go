package rules

import (
	"fmt"
	"go/ast"
	"go/token"
	"go/types"
	"strings"

	"verif/checker/core"
)

// Rules added after the first round of independently seeded changes showed what the
// first rule set could not see.  Each is a structural necessary condition of its property.
func init() {
	core.Register(&core.Rule{
		ID:    "R15.4",
		Title: "request URLs are never rebuilt from the decoded path",
		Text: "In package restli (non-test) every url.URL composite literal that sets Path also sets RawPath, and newRequest never reassigns its URL variable: url.URL.String() re-encodes a URL without RawPath with Go's default escaper, " +
			"which differs from the Rest.li path encoding (',' '(' ')' ':' '/' inside keys).",
		Props: []string{"C15", "C02", "C14"},
		Floor: map[string]int{"v2": 1, "root": 1},
		Run:   runR154,
	})
	core.Register(&core.Rule{
		ID:    "R04.7",
		Title: "allocation sizes are not taken from peer-controlled fields",
		Text: "In package restli no argument of bytes.Buffer.Grow, make(…, n) or a slice bound is derived (through local assignments) from http.Response.ContentLength / http.Request.ContentLength or a header value: " +
			"a hostile peer chooses that number, and Grow / make panic (or exhaust memory) on absurd values in the caller's goroutine.",
		Props: []string{"C04"},
		Floor: map[string]int{"v2": 1, "root": 1},
		Run:   runR047,
	})
	core.Register(&core.Rule{
		ID:    "R06.6",
		Title: "required-field lists never share a backing array",
		Text: "Every store to RequiredFields.fields is an append to the receiver's own (fresh) list, a make or a literal — never another list's slice: Add appends in place, so an aliased list lets two records overwrite each other's required fields.",
		Props:   []string{"C06"},
		Modules: []string{"v2"}, // the root module's RequiredFields is an immutable []string
		Floor:   map[string]int{"v2": 2},
		Run:     runR066,
	})
	core.Register(&core.Rule{
		ID:    "R09.5",
		Title: "serialization keeps no state between uses",
		Text: "The serialization and hashing packages (restlicodec, fnv1a, restli/equals, restli/batchkeyset) declare no package-level sync.Pool, cache map or other mutable variable reachable from writers (the custom-typeref registry, keyed by type and holding immutable adapters, is the one listed exception), " +
			"and key-set encoders do not memoise: a method that stores an encoding into its receiver requires every mutator of that receiver to reset the same field.",
		Props: []string{"C09", "C16"},
		Floor: map[string]int{"v2": 5, "root": 4},
		Run:   runR095,
	})
	core.Register(&core.Rule{
		ID:    "R10.5",
		Title: "hash and equality helpers cannot tell nil from empty",
		Text:  "In fnv1a and restli/equals no slice- or map-typed value is compared with nil (only len() is consulted): generated Equals treats nil and empty collections as equal, so a hash or comparison that distinguishes them breaks Equal => same hash.",
		Props: []string{"C10"},
		Floor: map[string]int{"v2": 2, "root": 2},
		Run:   runR105,
	})
	core.Register(&core.Rule{
		ID: "R10.6", Generated: true,
		Title: "generated Equals is symmetric in shape",
		Text:  "In every generated Equals, after the identity / nil guards on the two operands, no comparison is nested under a condition that mentions only the receiver's (or only the other's) fields: such a guard makes a.Equals(b) and b.Equals(a) differ.",
		Props: []string{"C10"},
		Floor: map[string]int{"corpus": 20},
		Run:   runR106,
	})
}

func runR154(c *core.Ctx) {
	const rel = "restli"
	p := c.M.Pkg(rel)
	inf := p.TypesInfo
	n, bad := 0, 0
	for _, file := range p.Syntax {
		if strings.HasSuffix(c.M.Fset.File(file.Pos()).Name(), "_test.go") {
			continue
		}
		ast.Inspect(file, func(x ast.Node) bool {
			cl, ok := x.(*ast.CompositeLit)
			if !ok {
				return true
			}
			nn := namedOf(inf.Types[cl].Type)
			if nn == nil || nn.Obj().Pkg() == nil || nn.Obj().Pkg().Path() != "net/url" || nn.Obj().Name() != "URL" {
				return true
			}
			n++
			hasPath, hasRaw := false, false
			for _, el := range cl.Elts {
				if kv, ok := el.(*ast.KeyValueExpr); ok {
					if id, ok := kv.Key.(*ast.Ident); ok {
						switch id.Name {
						case "Path":
							hasPath = true
						case "RawPath":
							hasRaw = true
						}
					}
				}
			}
			if hasPath && !hasRaw {
				bad++
				c.Bad(rel, enclosingFuncName(file, cl.Pos()), fmt.Sprintf("url.URL literal #%d keeps the encoded path", n), cl.Pos(), "the literal sets Path without RawPath: String() re-encodes the decoded path with Go's escaper and the Rest.li encoding of the keys is lost")
			}
			return true
		})
	}
	// newRequest never reassigns its URL variable
	_, fd := mustDecl(c, rel, "newRequest")
	var uObj types.Object
	ast.Inspect(fd.Body, func(x ast.Node) bool {
		if as, ok := x.(*ast.AssignStmt); ok && as.Tok == token.DEFINE && len(as.Rhs) == 1 && uObj == nil {
			if call, ok := core.Unparen(as.Rhs[0]).(*ast.CallExpr); ok {
				if cf := core.Callee(inf, call); cf != nil && cf.Name() == "formatQueryUrl" {
					uObj = core.ObjOf(inf, as.Lhs[0])
				}
			}
		}
		return true
	})
	reassigned := false
	if uObj != nil {
		ast.Inspect(fd.Body, func(x ast.Node) bool {
			if as, ok := x.(*ast.AssignStmt); ok && as.Tok != token.DEFINE {
				for _, l := range as.Lhs {
					if id, ok := core.Unparen(l).(*ast.Ident); ok && core.ObjOf(inf, id) == uObj {
						reassigned = true
					}
				}
			}
			return true
		})
	}
	c.Check(uObj != nil && !reassigned && bad == 0, rel, "newRequest", "the URL built by formatQueryUrl reaches the request unchanged except for RawQuery", fd.Pos(), fmt.Sprintf("%d url.URL literals in the package", n),
		"the request URL is rebuilt or reassigned after formatQueryUrl")
}

func runR047(c *core.Ctx) {
	const rel = "restli"
	p := c.M.Pkg(rel)
	inf := p.TypesInfo
	sinks, bad := 0, 0
	for _, fd := range c.M.FuncDecls(rel) {
		if fd.Body == nil || strings.HasSuffix(c.M.Fset.File(fd.Pos()).Name(), "_test.go") {
			continue
		}
		// tainted locals: assigned from an expression mentioning .ContentLength or Header.Get / strconv of it
		tainted := map[types.Object]bool{}
		isSource := func(e ast.Expr) bool {
			found := false
			ast.Inspect(e, func(x ast.Node) bool {
				switch y := x.(type) {
				case *ast.SelectorExpr:
					if fv, ok := core.ObjOf(inf, y).(*types.Var); ok && fv.IsField() && fv.Name() == "ContentLength" && fv.Pkg() != nil && fv.Pkg().Path() == "net/http" {
						found = true
					}
				case *ast.Ident:
					if tainted[core.ObjOf(inf, y)] {
						found = true
					}
				case *ast.CallExpr:
					if cf := core.Callee(inf, y); cf != nil && cf.Name() == "Get" && core.IsMethod(cf, "net/http", "Header", "Get") {
						found = true
					}
				}
				return !found
			})
			return found
		}
		for changed := true; changed; {
			changed = false
			ast.Inspect(fd.Body, func(x ast.Node) bool {
				if as, ok := x.(*ast.AssignStmt); ok && len(as.Lhs) == len(as.Rhs) {
					for i, l := range as.Lhs {
						if o := core.ObjOf(inf, l); o != nil && !tainted[o] && isSource(as.Rhs[i]) {
							if b, ok := o.Type().Underlying().(*types.Basic); ok && b.Info()&types.IsInteger != 0 {
								tainted[o] = true
								changed = true
							}
						}
					}
				}
				return true
			})
		}
		ast.Inspect(fd.Body, func(x ast.Node) bool {
			call, ok := x.(*ast.CallExpr)
			if !ok {
				return true
			}
			var sizeArgs []ast.Expr
			what := ""
			if cf := core.Callee(inf, call); cf != nil && cf.Name() == "Grow" && (core.IsMethod(cf, "bytes", "Buffer", "Grow") || core.IsMethod(cf, "strings", "Builder", "Grow")) {
				sizeArgs, what = call.Args, "Grow"
			}
			if id, ok := core.Unparen(call.Fun).(*ast.Ident); ok && id.Name == "make" {
				if _, isB := inf.Uses[id].(*types.Builtin); isB && len(call.Args) >= 2 {
					sizeArgs, what = call.Args[1:], "make"
				}
			}
			if what == "" {
				return true
			}
			sinks++
			for _, a := range sizeArgs {
				if isSource(a) {
					bad++
					c.Bad(rel, core.DeclName(fd), fmt.Sprintf("%s size #%d is not peer-controlled", what, ordinal(fd, call)), call.Pos(), "the size derives from Content-Length / a header value chosen by the peer: absurd values panic or exhaust memory")
				}
			}
			return true
		})
	}
	if bad == 0 {
		c.OK(rel, "-", fmt.Sprintf("none of the %d allocation sizes in the package derives from a peer-controlled field", sinks), token.NoPos, "")
	}
}

func runR066(c *core.Ctx) {
	const rel = "restlicodec"
	inf := info(c, rel)
	rfT, _ := mustObj(c, rel, "RequiredFields").(*types.TypeName)
	n := 0
	for _, fd := range c.M.FuncDecls(rel) {
		if fd.Body == nil {
			continue
		}
		ast.Inspect(fd.Body, func(x ast.Node) bool {
			as, ok := x.(*ast.AssignStmt)
			if !ok {
				return true
			}
			for i, l := range as.Lhs {
				base, isF := fieldNamed(inf, l, rfT, "fields")
				if !isF || i >= len(as.Rhs) {
					continue
				}
				n++
				okStore, how := false, ""
				switch r := core.Unparen(as.Rhs[i]).(type) {
				case *ast.CallExpr:
					if id, ok := core.Unparen(r.Fun).(*ast.Ident); ok {
						switch id.Name {
						case "append":
							// append(<same object>.fields, …) or append(nil, …)
							if len(r.Args) >= 1 {
								if b2, isF2 := fieldNamed(inf, r.Args[0], rfT, "fields"); isF2 && core.SameExpr(inf, b2, base) {
									okStore, how = true, "append to its own list"
								}
								if core.IsNil(inf, r.Args[0]) {
									okStore, how = true, "append to nil"
								}
								if conv, ok := core.Unparen(r.Args[0]).(*ast.CallExpr); ok && len(conv.Args) == 1 && core.IsNil(inf, conv.Args[0]) {
									okStore, how = true, "append to nil"
								}
							}
						case "make":
							okStore, how = true, "make"
						}
					}
				case *ast.CompositeLit:
					okStore, how = true, "literal"
				}
				c.Check(okStore, rel, core.DeclName(fd), fmt.Sprintf("store to RequiredFields.fields #%d builds a list of its own", ordinal(fd, as)), as.Pos(), how,
					core.ExprString(as.Rhs[i])+" aliases another list's backing array: a later Add on either list overwrites the other's entries")
			}
			return true
		})
	}
	if n == 0 {
		c.Unknown(rel, "-", "stores to RequiredFields.fields", token.NoPos, "none found")
	}
}

func runR095(c *core.Ctx) {
	mut := mutatingMethods(c)
	for _, rel := range []string{"restlicodec", "fnv1a", "restli/equals", "restli/batchkeyset"} {
		p := c.M.Pkg(rel)
		if p == nil {
			continue
		}
		scope := p.Types.Scope()
		var problems []string
		for _, name := range scope.Names() {
			v, ok := scope.Lookup(name).(*types.Var)
			if !ok {
				continue
			}
			t := v.Type()
			ts := t.String()
			switch {
			case name == "customTyperefAdapters":
				// the registry: LoadOrStore of immutable adapters keyed by type (R17.6)
			case strings.Contains(ts, "sync.Pool"):
				problems = append(problems, name+" is a sync.Pool: objects returned to it carry state into later serializations")
			case isSyncType(t):
				problems = append(problems, name+" is a "+ts+" holding state across calls")
			default:
				// any mutating use outside init
				for _, q := range c.M.Roots {
					for _, file := range q.Syntax {
						if strings.HasSuffix(c.M.Fset.File(file.Pos()).Name(), "_test.go") {
							continue
						}
						par := core.Parents(file)
						ast.Inspect(file, func(x ast.Node) bool {
							id, ok := x.(*ast.Ident)
							if !ok || q.TypesInfo.Uses[id] != v {
								return true
							}
							fn := enclosingFuncName(file, id.Pos())
							if fn == "init" || fn == "(package level)" {
								return true
							}
							if k := classifyUse(c, q.TypesInfo, par, id, mut); strings.HasPrefix(k, "mutates") {
								problems = append(problems, name+" "+k+" in "+fn)
							}
							return true
						})
					}
				}
			}
		}
		c.Check(len(problems) == 0, rel, "-", "package keeps no pool, cache or mutable variable between serializations", token.NoPos, "", strings.Join(dedupe(problems), "; "))
	}
	// memoisation in key sets
	const ks = "restli/batchkeyset"
	p := c.M.Pkg(ks)
	inf := p.TypesInfo
	type store struct {
		field string
		fd    *ast.FuncDecl
	}
	storesBy := map[string]map[string][]string{} // type -> method -> fields stored
	for _, fd := range c.M.FuncDecls(ks) {
		if fd.Body == nil || fd.Recv == nil {
			continue
		}
		recv := recvObj(inf, fd)
		tn := strings.Split(strings.TrimPrefix(strings.TrimPrefix(core.DeclName(fd), "(*"), "("), ")")[0]
		ast.Inspect(fd.Body, func(x ast.Node) bool {
			var lhs []ast.Expr
			switch y := x.(type) {
			case *ast.AssignStmt:
				lhs = y.Lhs
			case *ast.IncDecStmt:
				lhs = []ast.Expr{y.X}
			}
			for _, l := range lhs {
				if _, isIdent := core.Unparen(l).(*ast.Ident); isIdent {
					continue
				}
				if r := rootIdent(l); r != nil && inf.Uses[r] == recv && recv != nil {
					for _, f := range recvSelFields(inf, recv, l) {
						if storesBy[tn] == nil {
							storesBy[tn] = map[string][]string{}
						}
						storesBy[tn][fd.Name.Name] = append(storesBy[tn][fd.Name.Name], f)
					}
				}
			}
			return true
		})
	}
	for tn, methods := range storesBy {
		for m, fields := range methods {
			if !strings.HasPrefix(strings.ToLower(m), "encode") && m != "EncodeQueryParams" {
				continue
			}
			// an encoder stores into its receiver: memoisation; every other storing method must reset the same fields
			for _, f := range dedupe(fields) {
				var missing []string
				for m2, f2 := range methods {
					if m2 == m {
						continue
					}
					has := false
					for _, x := range f2 {
						if x == f {
							has = true
						}
					}
					if !has {
						missing = append(missing, m2)
					}
				}
				// mutators that store nothing at all but call AddKey etc. are covered transitively; list all methods of the type that mutate
				c.Check(len(missing) == 0, ks, "(*"+tn+")."+m, "memoised field "+f+" is reset by every mutator of the key set", token.NoPos, "",
					"the encoder caches into "+f+" but "+strings.Join(missing, ", ")+" change the set without resetting it: a later encoding returns the stale ids")
			}
		}
	}
	c.OK(ks, "-", "key-set encoders checked for memoisation", token.NoPos, fmt.Sprintf("%d types store through their receiver", len(storesBy)))
}

func runR105(c *core.Ctx) {
	for _, rel := range []string{"fnv1a", "restli/equals"} {
		p := c.M.Pkg(rel)
		inf := p.TypesInfo
		var problems []string
		for _, file := range p.Syntax {
			if strings.HasSuffix(c.M.Fset.File(file.Pos()).Name(), "_test.go") {
				continue
			}
			ast.Inspect(file, func(x ast.Node) bool {
				be, ok := x.(*ast.BinaryExpr)
				if !ok || (be.Op != token.EQL && be.Op != token.NEQ) {
					return true
				}
				var other ast.Expr
				switch {
				case core.IsNil(inf, be.Y):
					other = be.X
				case core.IsNil(inf, be.X):
					other = be.Y
				default:
					return true
				}
				t := inf.Types[other].Type
				if t == nil {
					return true
				}
				// type parameters constrained to slices/maps count too
				switch t.Underlying().(type) {
				case *types.Slice, *types.Map:
					problems = append(problems, fmt.Sprintf("%s: %s is compared with nil", enclosingFuncName(file, be.Pos()), core.ExprString(other)))
				}
				return true
			})
		}
		c.Check(len(problems) == 0, rel, "-", "no slice or map is compared with nil (nil and empty are the same value)", token.NoPos, "", strings.Join(problems, "; "))
	}
}

func runR106(c *core.Ctx) {
	if c.Corpus.Failure != "" {
		return
	}
	for _, g := range genModel(c) {
		if g.Kind != "record" && g.Kind != "union" && g.Kind != "complexkey" {
			continue
		}
		eq := g.Methods["Equals"]
		if eq == nil {
			continue
		}
		inf := g.inf()
		recv, other := recvObj(inf, eq), otherParam(inf, eq)
		var problems []string
		ast.Inspect(eq.Body, func(n ast.Node) bool {
			ifs, ok := n.(*ast.IfStmt)
			if !ok {
				return true
			}
			mine := recvSelFields(inf, recv, ifs.Cond)
			theirs := recvSelFields(inf, other, ifs.Cond)
			if (len(mine) > 0) != (len(theirs) > 0) {
				problems = append(problems, "the condition "+core.ExprString(ifs.Cond)+" consults only one operand's fields: a.Equals(b) and b.Equals(a) can differ")
			}
			return true
		})
		c.Check(len(problems) == 0, g.Rel, g.Name, "Equals treats its two operands symmetrically", eq.Pos(), "", strings.Join(dedupe(problems), "; "))
	}
}

func init() {
	core.Register(&core.Rule{
		ID: "R11.6", Generated: true,
		Title: "a delete delegated to an included record keeps its verdict",
		Text: "In every generated _PartialUpdate.UnmarshalDeleteField (and UnmarshalSetField's delegations are covered by R06.3G), the error returned by a delegated UnmarshalDeleteField call is returned to the caller on every path unless it was compared equal to the no-such-field sentinel (or to nil): " +
			"otherwise the cannot-delete-a-required-field verdict of an included record is overwritten by the next lookup and the delete is accepted.",
		Props: []string{"C11"},
		Floor: map[string]int{"corpus": 10},
		Run:   runR116,
	})
}

func runR116(c *core.Ctx) {
	if c.Corpus.Failure != "" {
		return
	}
	for _, g := range genModel(c) {
		if !strings.HasSuffix(g.Name, "_PartialUpdate") {
			continue
		}
		ud := g.Methods["UnmarshalDeleteField"]
		if ud == nil {
			continue
		}
		inf := g.inf()
		isDelegation := func(e ast.Expr) bool {
			call, ok := core.Unparen(e).(*ast.CallExpr)
			if !ok {
				return false
			}
			f := core.Callee(inf, call)
			return f != nil && f.Name() == "UnmarshalDeleteField"
		}
		isSentinel := func(e ast.Expr) bool {
			o := core.ObjOf(inf, e)
			return o != nil && o.Name() == "NoSuchFieldErr"
		}
		var errObj types.Object // the variable holding the pending verdict
		var problems []string
		delegations := 0
		const (
			clean   = 0
			pending = 1
			cleared = 2
		)
		fl := core.NewFlow(c.M, inf, ud.Body)
		fl.Run(&core.Automaton{
			Init: clean,
			Node: func(st int, n ast.Node) int {
				switch x := n.(type) {
				case *ast.AssignStmt:
					if len(x.Lhs) == 1 && len(x.Rhs) == 1 && isDelegation(x.Rhs[0]) {
						o := core.ObjOf(inf, x.Lhs[0])
						if st == pending {
							problems = append(problems, c.M.Position(x.Pos())+": the verdict of the previous delegated call is overwritten before it was returned or found to be the no-such-field sentinel")
						}
						errObj = o
						return pending
					}
					if st == pending {
						for _, o := range core.AssignedObjs(inf, x) {
							if o == errObj {
								problems = append(problems, c.M.Position(x.Pos())+": the delegated verdict is overwritten")
								return clean
							}
						}
					}
				case *ast.ReturnStmt:
					if st == pending {
						ok := len(x.Results) == 0 // named result
						if len(x.Results) == 1 && core.ObjOf(inf, x.Results[0]) == errObj && errObj != nil {
							ok = true
						}
						if !ok {
							problems = append(problems, c.M.Position(x.Pos())+": returns something else while a delegated verdict other than the sentinel may be pending")
						}
					}
				}
				return st
			},
			Edge: func(st int, facts []core.Fact) (int, bool) {
				if st != pending {
					return st, true
				}
				for _, f := range facts {
					be, ok := core.Unparen(f.Expr).(*ast.BinaryExpr)
					if !ok || (be.Op != token.EQL && be.Op != token.NEQ) {
						continue
					}
					var other ast.Expr
					switch {
					case core.ObjOf(inf, be.X) == errObj:
						other = be.Y
					case core.ObjOf(inf, be.Y) == errObj:
						other = be.X
					default:
						continue
					}
					equal := (be.Op == token.EQL) == f.Val
					if equal && (isSentinel(other) || core.IsNil(inf, other)) {
						return cleared, true
					}
				}
				return st, true
			},
		})
		ast.Inspect(ud.Body, func(n ast.Node) bool {
			if call, ok := n.(*ast.CallExpr); ok && isDelegation(call) {
				delegations++
			}
			return true
		})
		c.Check(len(problems) == 0 && delegations > 0, g.Rel, g.Name, "every delegated delete verdict is returned unless it is the sentinel", ud.Pos(), fmt.Sprintf("%d delegated calls", delegations),
			strings.Join(dedupe(problems), "; ")+map[bool]string{true: "no delegated UnmarshalDeleteField call found", false: ""}[delegations == 0])
	}
}
