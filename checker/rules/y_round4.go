package rules

import (
	"fmt"
	"go/ast"
	"go/token"
	"go/types"
	"strings"

	"verif/checker/core"
)

// Rules added after the fourth seeding round.

func init() {
	core.Register(&core.Rule{
		ID:    "R01.9",
		Title: "the ROR2 empty-string marker is recognised on raw input only",
		Text: "In restlicodec every comparison with the empty-string marker constant (`''`) has as its other operand text taken from the input as it stands: " +
			"never the result of the reader's percent-decoder (the decoder field, or a function that returns what it decoded).  Decoded text equal to the marker is the two-apostrophe string the peer sent escaped (%27%27), not the empty string.",
		Props: []string{"C01", "C03", "C16", "C02"},
		Floor: map[string]int{"v2": 2, "root": 2},
		Run:   runR019,
	})
	core.Register(&core.Rule{
		ID:    "R02.6",
		Title: "Rest.li queries are never handed to the form-encoding parsers of net/url",
		Text: "In the runtime packages (restli, restlicodec) no call of url.ParseQuery, (*url.URL).Query, url.Values.Encode / Get / Set, (*http.Request).ParseForm / FormValue / PostFormValue / ParseMultipartForm: " +
			"a Rest.li query is ROR2 text whose only reserved bytes are those of the query escaper; the form parsers reject or rewrite bytes that are legal in it (`;`, `+`), so a request that is fine untunnelled fails (or changes) when it is validated or rebuilt through them.",
		Props: []string{"C02", "C14", "C15"},
		Floor: map[string]int{"v2": 1, "root": 1},
		Run:   runR026,
	})
}

func runR026(c *core.Ctx) {
	n := 0
	for _, rel := range []string{"restli", "restlicodec"} {
		p := c.M.Pkg(rel)
		if p == nil {
			continue
		}
		inf := p.TypesInfo
		for _, fd := range c.M.FuncDecls(rel) {
			if fd.Body == nil || strings.HasSuffix(c.M.Fset.File(fd.Pos()).Name(), "_test.go") {
				continue
			}
			ast.Inspect(fd.Body, func(x ast.Node) bool {
				call, ok := x.(*ast.CallExpr)
				if !ok {
					return true
				}
				f := core.Callee(inf, call)
				if f == nil || f.Pkg() == nil {
					return true
				}
				bad := ""
				switch f.Pkg().Path() {
				case "net/url":
					rn := ""
					if r := core.RecvNamed(f); r != nil {
						rn = r.Obj().Name()
					}
					switch {
					case f.Name() == "ParseQuery":
						bad = "url.ParseQuery"
					case rn == "URL" && f.Name() == "Query":
						bad = "(*url.URL).Query"
					case rn == "Values":
						bad = "url.Values." + f.Name()
					}
				case "net/http":
					if r := core.RecvNamed(f); r != nil && r.Obj().Name() == "Request" {
						switch f.Name() {
						case "ParseForm", "FormValue", "PostFormValue", "ParseMultipartForm", "FormFile":
							bad = "(*http.Request)." + f.Name()
						}
					}
				}
				if bad != "" {
					n++
					c.Bad(rel, core.DeclName(fd), fmt.Sprintf("form-encoding parser #%d", n), call.Pos(), bad+" interprets a Rest.li query as application/x-www-form-urlencoded: bytes that are legal in ROR2 (`;`, `+`) are rejected or rewritten")
				}
				return true
			})
		}
	}
	if n == 0 {
		c.OK("restli", "-", "no form-encoding parser touches a Rest.li query", token.NoPos, "")
	}
}

// derivesFrom reports whether e, in fd, is or is assigned (through locals, any definition) from an expression for which
// pred holds.
func derivesFrom(inf *types.Info, fd *ast.FuncDecl, e ast.Expr, pred func(ast.Expr) bool, depth int) bool {
	found := false
	ast.Inspect(e, func(n ast.Node) bool {
		if found {
			return false
		}
		if x, ok := n.(ast.Expr); ok && pred(x) {
			found = true
			return false
		}
		if id, ok := n.(*ast.Ident); ok && depth < 4 {
			o := core.ObjOf(inf, id)
			if v, isVar := o.(*types.Var); isVar && !v.IsField() {
				ast.Inspect(fd.Body, func(m ast.Node) bool {
					as, ok := m.(*ast.AssignStmt)
					if !ok || found {
						return !found
					}
					for i, l := range as.Lhs {
						if core.ObjOf(inf, l) != o {
							continue
						}
						var rhs ast.Expr
						if len(as.Lhs) == len(as.Rhs) {
							rhs = as.Rhs[i]
						} else if len(as.Rhs) == 1 {
							rhs = as.Rhs[0]
						}
						if rhs != nil && rhs != e && derivesFrom(inf, fd, rhs, pred, depth+1) {
							found = true
						}
					}
					return !found
				})
			}
		}
		return !found
	})
	return found
}

func runR019(c *core.Ctx) {
	const rel = "restlicodec"
	inf := info(c, rel)
	marker := mustObj(c, rel, "emptyString")
	// decoding functions: the decoder field, and (to a fixed point) functions of the package that return text derived from a
	// decoding call
	decoders := map[*types.Func]bool{}
	isDecodeCall := func(e ast.Expr) bool {
		call, ok := core.Unparen(e).(*ast.CallExpr)
		if !ok {
			return false
		}
		if fv, ok := core.ObjOf(inf, call.Fun).(*types.Var); ok && fv.IsField() && strings.Contains(strings.ToLower(fv.Name()), "decode") {
			return true
		}
		f := core.Callee(inf, call)
		if f == nil {
			return false
		}
		if decoders[f.Origin()] {
			return true
		}
		if f.Pkg() != nil && f.Pkg().Path() == "net/url" && strings.Contains(f.Name(), "Unescape") {
			return true
		}
		return false
	}
	for changed := true; changed; {
		changed = false
		for _, fd := range c.M.FuncDecls(rel) {
			f, _ := inf.Defs[fd.Name].(*types.Func)
			if fd.Body == nil || f == nil || decoders[f] {
				continue
			}
			sig := f.Type().(*types.Signature)
			if sig.Results().Len() == 0 {
				continue
			}
			if b, ok := sig.Results().At(0).Type().Underlying().(*types.Basic); !ok || b.Info()&types.IsString == 0 {
				continue
			}
			for _, r := range core.ReturnsIn(fd.Body) {
				if len(r.Results) > 0 && derivesFrom(inf, fd, r.Results[0], isDecodeCall, 0) {
					decoders[f] = true
					changed = true
				}
			}
		}
	}
	n := 0
	for _, fd := range c.M.FuncDecls(rel) {
		if fd.Body == nil {
			continue
		}
		fn := core.DeclName(fd)
		check := func(other ast.Expr, at token.Pos) {
			n++
			tainted := derivesFrom(inf, fd, other, isDecodeCall, 0)
			c.Check(!tainted, rel, fn, fmt.Sprintf("marker comparison #%d is made on raw input", n), at, "",
				core.ExprString(other)+" has been through the percent-decoder when it is compared with the marker: the escaped two-apostrophe string %27%27 reads back as the empty string")
		}
		ast.Inspect(fd.Body, func(x ast.Node) bool {
			switch y := x.(type) {
			case *ast.BinaryExpr:
				if y.Op == token.EQL || y.Op == token.NEQ {
					if core.ObjOf(inf, y.X) == marker {
						check(y.Y, y.Pos())
					} else if core.ObjOf(inf, y.Y) == marker {
						check(y.X, y.Pos())
					}
				}
			case *ast.SwitchStmt:
				if y.Tag != nil {
					for _, cl := range y.Body.List {
						for _, ce := range cl.(*ast.CaseClause).List {
							if core.ObjOf(inf, ce) == marker {
								check(y.Tag, ce.Pos())
							}
						}
					}
				}
			}
			return true
		})
	}
}
