package rules

import (
	"fmt"
	"go/ast"
	"go/token"
	"go/types"
	"strings"

	"verif/checker/core"
)

// Rules added after the fourth seeding round.

func init() {
	core.Register(&core.Rule{
		ID:    "R01.9",
		Title: "the ROR2 empty-string marker is recognised on raw input only",
		Text: "In restlicodec every comparison with the empty-string marker constant (`''`) has as its other operand text taken from the input as it stands: " +
			"never the result of the reader's percent-decoder (the decoder field, or a function that returns what it decoded).  Decoded text equal to the marker is the two-apostrophe string the peer sent escaped (%27%27), not the empty string.",
		Props: []string{"C01", "C03", "C16", "C02"},
		Floor: map[string]int{"v2": 2, "root": 2},
		Run:   runR019,
	})
	core.Register(&core.Rule{
		ID:    "R02.6",
		Title: "Rest.li queries are never handed to the form-encoding parsers of net/url",
		Text: "In the runtime packages (restli, restlicodec) no call of url.ParseQuery, (*url.URL).Query, url.Values.Encode / Get / Set, (*http.Request).ParseForm / FormValue / PostFormValue / ParseMultipartForm: " +
			"a Rest.li query is ROR2 text whose only reserved bytes are those of the query escaper; the form parsers reject or rewrite bytes that are legal in it (`;`, `+`), so a request that is fine untunnelled fails (or changes) when it is validated or rebuilt through them.",
		Props: []string{"C02", "C14", "C15", "C01"},
		Floor: map[string]int{"v2": 1, "root": 1},
		Run:   runR026,
	})
	core.Register(&core.Rule{
		ID:    "R04.8",
		Title: "a decoded object is handed back together with its error",
		Text: "In the generic UnmarshalRestLi[T], once an instance has been created (NewInstance()) every later return yields that instance as its value, whatever the error: " +
			"a lenient client drops a MissingRequiredFieldsError and uses the value, so a zero value returned with the error is dereferenced by the batch helpers (a panic in the caller's goroutine instead of an error).",
		Props:   []string{"C04", "C06"},
		Modules: []string{"v2"},
		Floor:   map[string]int{"v2": 1},
		Run:     runR048,
	})
	core.Register(&core.Rule{
		ID:    "R04.9",
		Title: "where a caller discards an error, the callee never pairs an error with a nil value",
		Text: "Inventory of assignments `v, _ := f(…)` / `v, _ = f(…)` in the runtime packages where f is a function of the module returning (T, error) with T a pointer, interface, map, slice or func: " +
			"every return of f (followed through `return g(…)` one level) whose error may be non-nil yields a non-nil value.  The caller's belief that the error can be ignored (because the input was validated earlier) " +
			"is only safe if the value is usable in every case; a constructor that starts answering (nil, err) turns that belief into a nil dereference — a recovered panic and a 500 with a stack trace for a malformed request.",
		Props: []string{"C04"},
		Floor: map[string]int{"v2": 1, "root": 1},
		Run:   runR049,
	})
	core.Register(&core.Rule{
		ID:    "R17.10",
		Title: "shared registries are updated atomically",
		Text: "For every package-level sync.Map of the runtime packages: no function both reads it (Load / Range) and writes it (Store / Delete) — a registration that must not overwrite goes through LoadOrStore (or CompareAndSwap / Swap), " +
			"whose answer decides.  A Load followed by a Store is a check-then-act window: two concurrent registrations both pass the check and the later Store silently replaces the earlier entry, without any data race for the race detector to see.",
		Props: []string{"C17"},
		Floor: map[string]int{"v2": 1, "root": 1},
		Run:   runR1710,
	})
	core.Register(&core.Rule{
		ID: "R10.8", Generated: true, GeneratedRoot: true,
		Title: "nested hashers hash into the hash they are given",
		Text: "In every generated package: a function literal with a parameter of type fnv1a.Hash (the per-entry hasher handed to fnv1a.AddMap / AddArray) passes that parameter — never a Hash captured from outside the literal — to every fnv1a call in its body. " +
			"AddMap hashes each entry into its own sub-hash and combines the sub-hashes in key order; a body that writes to the enclosing hash mixes the values in in map iteration order, so the hash of a record with a map of collections changes between calls.",
		Props: []string{"C10", "C09"},
		Floor: map[string]int{"corpus": 2},
		Run:   runR108,
	})
	core.Register(&core.Rule{
		ID:    "R12.9",
		Title: "a memo is keyed by everything its value depends on",
		Text: "In the generator packages (cmd, codegen/*): a function that both looks a package-level map up and stores its own result into it (a memo) uses a key that mentions every parameter the function's body uses: " +
			"a result that also depends on a parameter left out of the key (the package root, a flag) is served to a later call with a different value of that parameter — generation then depends on what was generated, or registered, earlier in the process.",
		Props: []string{"C12", "C09"},
		Floor: map[string]int{"v2": 1, "root": 1},
		Run:   runR129,
	})
	core.Register(&core.Rule{
		ID: "R13.4", Generated: true, GeneratedRoot: true,
		Title: "a record-typed default is built by the nested record's own decoder",
		Text: "In every generated populateLocalDefaultValues: where a field whose type is a generated record (or union) is given its default by allocating an instance, the same guarded block decodes the schema literal into it " +
			"(<field>.UnmarshalRestLi) or asks it to populate its defaults — never a bare allocation: the nested type's own defaulted fields are filled in by its decoder, so `{}` as a default means \"all of the nested defaults\", not a zero struct.",
		Props: []string{"C13"},
		Floor: map[string]int{"corpus": 3},
		Run:   runR134,
	})
}

func runR134(c *core.Ctx) {
	if c.Corpus.Failure != "" {
		return
	}
	for _, g := range genModel(c) {
		fd := g.Methods["populateLocalDefaultValues"]
		if fd == nil || fd.Body == nil {
			continue
		}
		inf := g.inf()
		par := core.Parents(fd)
		recv := recvObj(inf, fd)
		ast.Inspect(fd.Body, func(n ast.Node) bool {
			as, ok := n.(*ast.AssignStmt)
			if !ok || len(as.Lhs) != 1 || len(as.Rhs) != 1 {
				return true
			}
			sel, ok := core.Unparen(as.Lhs[0]).(*ast.SelectorExpr)
			if !ok || core.ObjOf(inf, sel.X) != recv {
				return true
			}
			// new(T) / &T{} of a struct type that has a decoder
			var t types.Type
			switch r := core.Unparen(as.Rhs[0]).(type) {
			case *ast.CallExpr:
				if b, isB := core.ObjOf(inf, r.Fun).(*types.Builtin); isB && b.Name() == "new" && len(r.Args) == 1 {
					t = inf.Types[r.Args[0]].Type
				}
			case *ast.UnaryExpr:
				if cl, isLit := core.Unparen(r.X).(*ast.CompositeLit); isLit && r.Op == token.AND && len(cl.Elts) == 0 {
					t = inf.Types[cl].Type
				}
			}
			nn := namedOf(t)
			if nn == nil {
				return true
			}
			if _, isStruct := nn.Underlying().(*types.Struct); !isStruct {
				return true
			}
			hasDecoder := false
			for i := 0; i < nn.NumMethods(); i++ {
				if core.NameOf(nn.Method(i)) == "UnmarshalRestLi" {
					hasDecoder = true
				}
			}
			if !hasDecoder {
				return true
			}
			// the enclosing statement list
			list, idx := core.StmtListOf(par, as)
			filled := false
			for k := idx + 1; k >= 0 && k < len(list); k++ {
				ast.Inspect(list[k], func(m ast.Node) bool {
					call, ok := m.(*ast.CallExpr)
					if !ok {
						return true
					}
					if ms, ok := core.Unparen(call.Fun).(*ast.SelectorExpr); ok && core.SameExpr(inf, ms.X, sel) {
						if ms.Sel.Name == "UnmarshalRestLi" || strings.HasPrefix(ms.Sel.Name, "populate") {
							filled = true
						}
					}
					return true
				})
			}
			c.Check(filled, g.Rel, g.Name, "default of the record-typed field "+sel.Sel.Name+" is decoded into the new instance", as.Pos(), "",
				"the field is set to a bare "+core.ExprString(as.Rhs[0])+": the defaults declared by "+core.NameOf(nn.Obj())+" itself are missing from the default value")
			return true
		})
	}
}

func runR129(c *core.Ctx) {
	n := 0
	for _, rel := range generatorPkgs(c) {
		p := c.M.Pkg(rel)
		inf := p.TypesInfo
		for _, fd := range c.M.FuncDecls(rel) {
			if fd.Body == nil || strings.HasSuffix(c.M.Fset.File(fd.Pos()).Name(), "_test.go") {
				continue
			}
			// package-level maps read and written here
			type acc struct {
				reads, stores []*ast.IndexExpr
			}
			accs := map[types.Object]*acc{}
			lhs := map[*ast.IndexExpr]bool{}
			ast.Inspect(fd.Body, func(x ast.Node) bool {
				if as, ok := x.(*ast.AssignStmt); ok {
					for _, l := range as.Lhs {
						if ix, ok := core.Unparen(l).(*ast.IndexExpr); ok {
							lhs[ix] = true
						}
					}
				}
				return true
			})
			ast.Inspect(fd.Body, func(x ast.Node) bool {
				ix, ok := x.(*ast.IndexExpr)
				if !ok {
					return true
				}
				v, ok := core.ObjOf(inf, ix.X).(*types.Var)
				if !ok || v.Pkg() == nil || v.Parent() != v.Pkg().Scope() {
					return true
				}
				if _, isMap := v.Type().Underlying().(*types.Map); !isMap {
					return true
				}
				a := accs[v]
				if a == nil {
					a = &acc{}
					accs[v] = a
				}
				if lhs[ix] {
					a.stores = append(a.stores, ix)
				} else {
					a.reads = append(a.reads, ix)
				}
				return true
			})
			for m, a := range accs {
				if len(a.reads) == 0 || len(a.stores) == 0 {
					continue
				}
				// a memo only if what is stored is what is returned
				n++
				inKey := map[types.Object]bool{}
				keyNodes := map[ast.Node]bool{}
				for _, ix := range append(append([]*ast.IndexExpr{}, a.reads...), a.stores...) {
					ast.Inspect(ix.Index, func(y ast.Node) bool {
						keyNodes[y] = true
						if id, ok := y.(*ast.Ident); ok {
							if o := inf.Uses[id]; o != nil {
								inKey[o] = true
							}
						}
						return true
					})
				}
				var missing []string
				for _, fl := range fd.Type.Params.List {
					for _, nm := range fl.Names {
						po := inf.Defs[nm]
						if po == nil || inKey[po] {
							continue
						}
						used := false
						ast.Inspect(fd.Body, func(y ast.Node) bool {
							if id, ok := y.(*ast.Ident); ok && inf.Uses[id] == po && !keyNodes[id] {
								used = true
							}
							return true
						})
						if used {
							missing = append(missing, nm.Name)
						}
					}
				}
				c.Check(len(missing) == 0, rel, core.DeclName(fd), "memo "+core.NameOf(m)+" is keyed by every parameter the result depends on", fd.Pos(), "",
					"the value stored in "+core.NameOf(m)+" also depends on "+strings.Join(missing, ", ")+", which is not part of the key: a later call with a different value is served the stale entry")
			}
		}
	}
	if n == 0 {
		c.OK("codegen/utils", "-", "the generator keeps no memo in a package-level map", token.NoPos, "")
	}
}

func runR108(c *core.Ctx) {
	if c.Corpus.Failure != "" {
		return
	}
	isHash := func(t types.Type) bool {
		nn := namedOf(t)
		return nn != nil && core.NameOf(nn.Obj()) == "Hash" && nn.Obj().Pkg() != nil && strings.HasSuffix(nn.Obj().Pkg().Path(), "/fnv1a")
	}
	n := 0
	for _, p := range c.M.Roots {
		rel := c.M.Rel(p.PkgPath)
		inf := p.TypesInfo
		for _, file := range p.Syntax {
			for _, d := range file.Decls {
				fd, ok := d.(*ast.FuncDecl)
				if !ok || fd.Body == nil {
					continue
				}
				for _, lit := range core.AllFuncLits(fd.Body) {
					var own types.Object
					for _, fl := range lit.Type.Params.List {
						for _, nm := range fl.Names {
							if o := inf.Defs[nm]; o != nil && isHash(o.Type()) {
								own = o
							}
						}
					}
					if own == nil {
						continue
					}
					n++
					var foreign []string
					ast.Inspect(lit.Body, func(x ast.Node) bool {
						if inner, ok := x.(*ast.FuncLit); ok && inner != lit {
							// a nested hasher has its own parameter; its body is judged on its own
							for _, a := range inner.Type.Params.List {
								for _, nm := range a.Names {
									if o := inf.Defs[nm]; o != nil && isHash(o.Type()) {
										return false
									}
								}
							}
						}
						id, ok := x.(*ast.Ident)
						if !ok {
							return true
						}
						if o, isVar := inf.Uses[id].(*types.Var); isVar && o != own && isHash(o.Type()) && !(core.ObjPos(o) > lit.Pos() && core.ObjPos(o) < lit.End()) {
							foreign = append(foreign, c.M.Position(id.Pos()))
						}
						return true
					})
					c.Check(len(foreign) == 0, rel, core.DeclName(fd), fmt.Sprintf("nested hasher #%d writes to the hash it was given", ordinal(fd, lit)), lit.Pos(), "",
						"the hasher uses the enclosing hash at "+strings.Join(foreign, ", ")+" instead of its own parameter: entries are mixed in in map iteration order")
				}
			}
		}
	}
	c.Note("%d nested hashers", n)
}

func runR1710(c *core.Ctx) {
	n := 0
	for _, p := range c.M.Roots {
		rel := c.M.Rel(p.PkgPath)
		if strings.HasPrefix(rel, "internal") || strings.HasPrefix(rel, "codegen") || rel == "cmd" {
			continue
		}
		inf := p.TypesInfo
		// package-level sync.Map variables
		maps := map[types.Object]bool{}
		for _, name := range p.Types.Scope().Names() {
			if v, ok := p.Types.Scope().Lookup(name).(*types.Var); ok {
				if nn := namedOf(v.Type()); nn != nil && nn.Obj().Pkg() != nil && nn.Obj().Pkg().Path() == "sync" && core.NameOf(nn.Obj()) == "Map" {
					maps[v] = true
				}
			}
		}
		for m := range maps {
			for _, fd := range c.M.FuncDecls(rel) {
				if fd.Body == nil || strings.HasSuffix(c.M.Fset.File(fd.Pos()).Name(), "_test.go") {
					continue
				}
				var reads, writes []string
				ast.Inspect(fd.Body, func(x ast.Node) bool {
					call, ok := x.(*ast.CallExpr)
					if !ok {
						return true
					}
					sel, ok := core.Unparen(call.Fun).(*ast.SelectorExpr)
					if !ok || core.ObjOf(inf, sel.X) != m {
						return true
					}
					switch sel.Sel.Name {
					case "Load", "Range":
						reads = append(reads, sel.Sel.Name)
					case "Store", "Delete":
						writes = append(writes, sel.Sel.Name)
					}
					return true
				})
				if len(reads)+len(writes) == 0 {
					continue
				}
				n++
				c.Check(len(reads) == 0 || len(writes) == 0, rel, core.DeclName(fd), "use of the shared map "+core.NameOf(m)+" is a single atomic step", fd.Pos(), "",
					fmt.Sprintf("%s then %s on %s in one function: between the two another goroutine can register the same key, and the later Store replaces it unnoticed", strings.Join(reads, "/"), strings.Join(writes, "/"), core.NameOf(m)))
			}
		}
	}
	if n == 0 {
		c.OK("restlicodec", "-", "no package-level sync.Map is read and written by plain Load / Store", token.NoPos, "")
	}
}

func runR048(c *core.Ctx) {
	const rel = "restlicodec"
	inf := info(c, rel)
	_, fd := mustDecl(c, rel, "UnmarshalRestLi")
	// the instance variables
	inst := map[types.Object]bool{}
	ast.Inspect(fd.Body, func(n ast.Node) bool {
		as, ok := n.(*ast.AssignStmt)
		if !ok || len(as.Lhs) != len(as.Rhs) {
			return true
		}
		for i, r := range as.Rhs {
			if call, ok := core.Unparen(r).(*ast.CallExpr); ok {
				if f := core.Callee(inf, call); f != nil && core.NameOf(f) == "NewInstance" {
					if o := core.ObjOf(inf, as.Lhs[i]); o != nil {
						inst[o] = true
					}
				}
			}
		}
		return true
	})
	if len(inst) == 0 {
		c.Unknown(rel, "UnmarshalRestLi", "instance creation", fd.Pos(), "no NewInstance() call: how are pointer unmarshalers instantiated?")
		return
	}
	bad := token.NoPos
	core.NewFlow(c.M, inf, fd.Body).Run(&core.Automaton{
		AtEnd: true,
		Node: func(st int, n ast.Node) int {
			if as, ok := n.(*ast.AssignStmt); ok {
				for i, l := range as.Lhs {
					if o := core.ObjOf(inf, l); o != nil && inst[o] && i < len(as.Rhs) {
						if call, ok := core.Unparen(as.Rhs[i]).(*ast.CallExpr); ok {
							if f := core.Callee(inf, call); f != nil && core.NameOf(f) == "NewInstance" {
								st = 1
							}
						}
					}
				}
			}
			if r, ok := n.(*ast.ReturnStmt); ok && st == 1 {
				if len(r.Results) == 0 || !inst[core.ObjOf(inf, r.Results[0])] {
					if bad == token.NoPos {
						bad = r.Pos()
					}
				}
			}
			return st
		},
	})
	c.Check(bad == token.NoPos, rel, "UnmarshalRestLi", "the instance is returned on every path after it was created", fd.Pos(), "",
		"the return at "+c.M.Position(bad)+" yields something other than the instance that was unmarshalled into: with an error that a lenient client drops, the caller dereferences a zero value")
}

func runR049(c *core.Ctx) {
	type site struct {
		rel string
		fd  *ast.FuncDecl
		as  *ast.AssignStmt
		f   *types.Func
	}
	var sites []site
	for _, rel := range []string{"restli", "restlicodec", "restli/batchkeyset", "d2"} {
		p := c.M.Pkg(rel)
		if p == nil {
			continue
		}
		inf := p.TypesInfo
		for _, fd := range c.M.FuncDecls(rel) {
			if fd.Body == nil || strings.HasSuffix(c.M.Fset.File(fd.Pos()).Name(), "_test.go") {
				continue
			}
			ast.Inspect(fd.Body, func(n ast.Node) bool {
				as, ok := n.(*ast.AssignStmt)
				if !ok || len(as.Rhs) != 1 || len(as.Lhs) != 2 {
					return true
				}
				call, ok := core.Unparen(as.Rhs[0]).(*ast.CallExpr)
				if !ok {
					return true
				}
				f := core.Callee(inf, call)
				if f == nil || c.M.Decl(f.Origin()) == nil {
					return true
				}
				sig := f.Type().(*types.Signature)
				if sig.Results().Len() != 2 || !core.IsErrorType(sig.Results().At(1).Type()) {
					return true
				}
				if id, ok := as.Lhs[1].(*ast.Ident); !ok || id.Name != "_" {
					return true
				}
				if id, ok := as.Lhs[0].(*ast.Ident); ok && id.Name == "_" {
					return true
				}
				switch sig.Results().At(0).Type().Underlying().(type) {
				case *types.Pointer, *types.Interface, *types.Map, *types.Slice, *types.Signature:
					sites = append(sites, site{rel, fd, as, f.Origin()})
				}
				return true
			})
		}
	}
	if len(sites) == 0 {
		c.OK("restli", "-", "no call site discards the error of a module function while keeping its value", token.NoPos, "")
		return
	}
	// nilWithErr: a return of f that can pair a nil value with a non-nil error.  An error that is the verdict of a
	// validator applied to a parameter (`err := V(p); if err != nil { return nil, err }`) is recorded instead as a demand on
	// the caller: parameter p must have been validated by V.
	type demand struct {
		v     *types.Func
		param int
	}
	var nilWithErr func(f *types.Func, depth int) (string, []demand)
	nilWithErr = func(f *types.Func, depth int) (string, []demand) {
		fd := c.M.Decl(f)
		p := c.M.PkgOf(f)
		if fd == nil || fd.Body == nil || p == nil || depth > 2 {
			return "", nil
		}
		inf := p.TypesInfo
		why := ""
		var demands []demand
		for _, r := range core.ReturnsIn(fd.Body) {
			if why != "" {
				break
			}
			switch len(r.Results) {
			case 1:
				if call, ok := core.Unparen(r.Results[0]).(*ast.CallExpr); ok {
					if g := core.Callee(inf, call); g != nil && c.M.Decl(g.Origin()) != nil {
						w, ds := nilWithErr(g.Origin(), depth+1)
						why = w
						// g's demands on its parameters become demands on ours where the argument is our parameter
						for _, d := range ds {
							if d.param < len(call.Args) {
								if v, ok := core.ObjOf(inf, call.Args[d.param]).(*types.Var); ok && isParamOf(inf, fd, v) {
									demands = append(demands, demand{d.v, paramIndex(inf, fd, v)})
									continue
								}
							}
							why = fmt.Sprintf("%s passes something other than its own parameter to %s, which validates it", core.NameOf(f), core.NameOf(g))
						}
					}
				}
			case 2:
				if core.IsNil(inf, r.Results[1]) || !core.IsNil(inf, r.Results[0]) {
					continue
				}
				// (nil, err): err := V(param) ?
				okSrc := false
				if eo := core.ObjOf(inf, r.Results[1]); eo != nil {
					nDefs := 0
					ast.Inspect(fd.Body, func(n ast.Node) bool {
						as, ok := n.(*ast.AssignStmt)
						if !ok {
							return true
						}
						for i, l := range as.Lhs {
							if core.ObjOf(inf, l) != eo {
								continue
							}
							nDefs++
							if len(as.Lhs) == len(as.Rhs) {
								if call, ok := core.Unparen(as.Rhs[i]).(*ast.CallExpr); ok && len(call.Args) == 1 {
									if vf := core.Callee(inf, call); vf != nil && c.M.Decl(vf.Origin()) != nil {
										if pv, ok := core.ObjOf(inf, call.Args[0]).(*types.Var); ok && isParamOf(inf, fd, pv) {
											demands = append(demands, demand{vf.Origin(), paramIndex(inf, fd, pv)})
											okSrc = true
										}
									}
								}
							}
						}
						return true
					})
					if nDefs != 1 {
						okSrc = false
					}
				}
				if !okSrc {
					why = fmt.Sprintf("%s returns (nil, %s) at %s", core.NameOf(f), core.ExprString(r.Results[1]), c.M.Position(r.Pos()))
				}
			}
		}
		return why, demands
	}
	// validatedBy: e (an argument at the discarding call site) is known to have passed validator v: after stripping
	// conversions it has a named type of the module every conversion to which is guarded by v(<the converted expression>)
	// having returned nil.
	validatedBy := func(inf *types.Info, e ast.Expr, v *types.Func) (bool, string) {
		for {
			call, ok := core.Unparen(e).(*ast.CallExpr)
			if !ok || len(call.Args) != 1 {
				break
			}
			if tv, isConv := inf.Types[call.Fun]; !isConv || !tv.IsType() {
				break
			}
			e = call.Args[0]
		}
		nn := namedOf(inf.Types[e].Type)
		if nn == nil || nn.Obj().Pkg() == nil || c.M.PkgOf(nn.Obj()) == nil {
			return false, core.ExprString(e) + " has no type that records a validation"
		}
		convs, okAll := 0, true
		for _, p := range c.M.Roots {
			pinf := p.TypesInfo
			for _, file := range p.Syntax {
				var par map[ast.Node]ast.Node
				ast.Inspect(file, func(n ast.Node) bool {
					conv, ok := n.(*ast.CallExpr)
					if !ok || len(conv.Args) != 1 {
						return true
					}
					tv, isConv := pinf.Types[conv.Fun]
					if !isConv || !tv.IsType() || namedOf(tv.Type) == nil || namedOf(tv.Type).Obj() != nn.Obj() {
						return true
					}
					if at := namedOf(pinf.Types[conv.Args[0]].Type); at != nil && at.Obj() == nn.Obj() {
						return true // identity conversion
					}
					convs++
					if par == nil {
						par = core.Parents(file)
					}
					stmt := core.EnclosingStmt(par, conv)
					// an error variable assigned from v(<same expression>) and known nil here
					guarded := core.GuardedByFact(pinf, par, stmt, func(f core.Fact) bool {
						x, nonNil, ok := core.NilTest(pinf, f)
						if !ok || nonNil {
							return false
						}
						eo := core.ObjOf(pinf, x)
						found := false
						ast.Inspect(file, func(m ast.Node) bool {
							as, ok := m.(*ast.AssignStmt)
							if !ok || as.End() > stmt.Pos() || len(as.Lhs) != len(as.Rhs) {
								return true
							}
							for i, l := range as.Lhs {
								if core.ObjOf(pinf, l) == eo && eo != nil {
									if vc, ok := core.Unparen(as.Rhs[i]).(*ast.CallExpr); ok && len(vc.Args) == 1 {
										if vf := core.Callee(pinf, vc); vf != nil && vf.Origin() == v && core.SameExpr(pinf, vc.Args[0], conv.Args[0]) {
											found = true
										}
									}
								}
							}
							return true
						})
						return found
					}, nil)
					if !guarded {
						okAll = false
					}
					return true
				})
			}
		}
		if convs == 0 || !okAll {
			return false, fmt.Sprintf("not every conversion to %s follows a successful %s of the converted value", core.NameOf(nn.Obj()), core.NameOf(v))
		}
		return true, ""
	}
	for i, s := range sites {
		why, demands := nilWithErr(s.f, 0)
		if why == "" {
			call := core.Unparen(s.as.Rhs[0]).(*ast.CallExpr)
			sinf := c.M.Pkg(s.rel).TypesInfo
			for _, d := range demands {
				if d.param >= len(call.Args) {
					why = "validated parameter not passed"
					continue
				}
				if ok, w := validatedBy(sinf, call.Args[d.param], d.v); !ok {
					why = fmt.Sprintf("%s answers (nil, error) when %s rejects its argument, and %s", core.NameOf(s.f), core.NameOf(d.v), w)
				}
			}
		}
		c.Check(why == "", s.rel, core.DeclName(s.fd), fmt.Sprintf("discarded error #%d of %s leaves a usable value", i+1, core.NameOf(s.f)), s.as.Pos(), "",
			why+": this caller ignores the error and uses the value")
	}
}

func runR026(c *core.Ctx) {
	n := 0
	for _, rel := range []string{"restli", "restlicodec"} {
		p := c.M.Pkg(rel)
		if p == nil {
			continue
		}
		inf := p.TypesInfo
		for _, fd := range c.M.FuncDecls(rel) {
			if fd.Body == nil || strings.HasSuffix(c.M.Fset.File(fd.Pos()).Name(), "_test.go") {
				continue
			}
			ast.Inspect(fd.Body, func(x ast.Node) bool {
				call, ok := x.(*ast.CallExpr)
				if !ok {
					return true
				}
				f := core.Callee(inf, call)
				if f == nil || f.Pkg() == nil {
					return true
				}
				bad := ""
				switch f.Pkg().Path() {
				case "net/url":
					rn := ""
					if r := core.RecvNamed(f); r != nil {
						rn = core.NameOf(r.Obj())
					}
					switch {
					case core.NameOf(f) == "ParseQuery":
						bad = "url.ParseQuery"
					case rn == "URL" && core.NameOf(f) == "Query":
						bad = "(*url.URL).Query"
					case rn == "Values":
						bad = "url.Values." + core.NameOf(f)
					}
				case "net/http":
					if r := core.RecvNamed(f); r != nil && core.NameOf(r.Obj()) == "Request" {
						switch core.NameOf(f) {
						case "ParseForm", "FormValue", "PostFormValue", "ParseMultipartForm", "FormFile":
							bad = "(*http.Request)." + core.NameOf(f)
						}
					}
				}
				if bad != "" {
					n++
					c.Bad(rel, core.DeclName(fd), fmt.Sprintf("form-encoding parser #%d", n), call.Pos(), bad+" interprets a Rest.li query as application/x-www-form-urlencoded: bytes that are legal in ROR2 (`;`, `+`) are rejected or rewritten")
				}
				return true
			})
		}
	}
	if n == 0 {
		c.OK("restli", "-", "no form-encoding parser touches a Rest.li query", token.NoPos, "")
	}
}

// derivesFrom reports whether e, in fd, is or is assigned (through locals, any definition) from an expression for which
// pred holds.
func derivesFrom(inf *types.Info, fd *ast.FuncDecl, e ast.Expr, pred func(ast.Expr) bool, depth int) bool {
	found := false
	ast.Inspect(e, func(n ast.Node) bool {
		if found {
			return false
		}
		if x, ok := n.(ast.Expr); ok && pred(x) {
			found = true
			return false
		}
		if id, ok := n.(*ast.Ident); ok && depth < 4 {
			o := core.ObjOf(inf, id)
			if v, isVar := o.(*types.Var); isVar && !v.IsField() {
				ast.Inspect(fd.Body, func(m ast.Node) bool {
					as, ok := m.(*ast.AssignStmt)
					if !ok || found {
						return !found
					}
					for i, l := range as.Lhs {
						if core.ObjOf(inf, l) != o {
							continue
						}
						var rhs ast.Expr
						if len(as.Lhs) == len(as.Rhs) {
							rhs = as.Rhs[i]
						} else if len(as.Rhs) == 1 {
							rhs = as.Rhs[0]
						}
						if rhs != nil && rhs != e && derivesFrom(inf, fd, rhs, pred, depth+1) {
							found = true
						}
					}
					return !found
				})
			}
		}
		return !found
	})
	return found
}

func runR019(c *core.Ctx) {
	const rel = "restlicodec"
	inf := info(c, rel)
	marker := mustObj(c, rel, "emptyString")
	// decoding functions: the decoder field, and (to a fixed point) functions of the package that return text derived from a
	// decoding call
	decoders := map[*types.Func]bool{}
	isDecodeCall := func(e ast.Expr) bool {
		call, ok := core.Unparen(e).(*ast.CallExpr)
		if !ok {
			return false
		}
		if fv, ok := core.ObjOf(inf, call.Fun).(*types.Var); ok && fv.IsField() && strings.Contains(strings.ToLower(core.NameOf(fv)), "decode") {
			return true
		}
		f := core.Callee(inf, call)
		if f == nil {
			return false
		}
		if decoders[f.Origin()] {
			return true
		}
		if f.Pkg() != nil && f.Pkg().Path() == "net/url" && strings.Contains(core.NameOf(f), "Unescape") {
			return true
		}
		return false
	}
	for changed := true; changed; {
		changed = false
		for _, fd := range c.M.FuncDecls(rel) {
			f, _ := inf.Defs[fd.Name].(*types.Func)
			if fd.Body == nil || f == nil || decoders[f] {
				continue
			}
			sig := f.Type().(*types.Signature)
			if sig.Results().Len() == 0 {
				continue
			}
			if b, ok := sig.Results().At(0).Type().Underlying().(*types.Basic); !ok || b.Info()&types.IsString == 0 {
				continue
			}
			for _, r := range core.ReturnsIn(fd.Body) {
				if len(r.Results) > 0 && derivesFrom(inf, fd, r.Results[0], isDecodeCall, 0) {
					decoders[f] = true
					changed = true
				}
			}
		}
	}
	n := 0
	for _, fd := range c.M.FuncDecls(rel) {
		if fd.Body == nil {
			continue
		}
		fn := core.DeclName(fd)
		check := func(other ast.Expr, at token.Pos) {
			n++
			tainted := derivesFrom(inf, fd, other, isDecodeCall, 0)
			c.Check(!tainted, rel, fn, fmt.Sprintf("marker comparison #%d is made on raw input", n), at, "",
				core.ExprString(other)+" has been through the percent-decoder when it is compared with the marker: the escaped two-apostrophe string %27%27 reads back as the empty string")
		}
		ast.Inspect(fd.Body, func(x ast.Node) bool {
			switch y := x.(type) {
			case *ast.BinaryExpr:
				if y.Op == token.EQL || y.Op == token.NEQ {
					if core.ObjOf(inf, y.X) == marker {
						check(y.Y, y.Pos())
					} else if core.ObjOf(inf, y.Y) == marker {
						check(y.X, y.Pos())
					}
				}
			case *ast.SwitchStmt:
				if y.Tag != nil {
					for _, cl := range y.Body.List {
						for _, ce := range cl.(*ast.CaseClause).List {
							if core.ObjOf(inf, ce) == marker {
								check(y.Tag, ce.Pos())
							}
						}
					}
				}
			}
			return true
		})
	}
}

func init() {
	// what the fourth seeding round added to each property's claim (printed into the evidence files)
	for id, text := range map[string]string{
		"C01": "Round 4: the ROR2 empty-string marker is compared on raw input only (R01.9); an escaper consults only its own table, also through helpers (R01.1); required-field lists never share a backing array (R06.6).",
		"C02": "Round 4: no net/url form parser touches a Rest.li query (R02.6); escapers consult only their own table (R01.1); marker on raw input (R01.9).",
		"C03": "Round 4: R01.9 (marker on raw input); R07.1 clause: the map is opened only once a key is known to be kept.",
		"C04": "Round 4: the decoded instance is returned together with its error (R04.8); where a caller discards an error the callee never pairs it with a nil value, errors that are a validator's verdict being discharged by the validated type of the argument (R04.9).",
		"C05": "Round 4: copy helpers of the routing-tree snapshot return the fresh map on every path (R05.6).",
		"C08": "Round 4: a printf-style wrapper forwards its format parameter unchanged (R08.7).",
		"C09": "Round 4: the sort runs on every CFG path that emits two or more entries (R09.2); nested generated hashers use their own Hash parameter (R10.8).",
		"C10": "Round 4: every comparison of two optional values delegates to, or itself satisfies, the nil/identity/value table (R10.4); nested generated hashers hash into the hash they are given (R10.8, [G]).",
		"C11": "Round 4: generated fixed decoders copy only where len(source) == size is known (R11.2); the A-finite evaluator reports the excluded-nested-patch row instead of giving up.",
		"C12": "Round 4: a memo in the generator is keyed by every parameter its value depends on (R12.9); corpus extended with records whose only include is EmptyRecord.",
		"C13": "Round 4: a record-typed default is decoded into the new instance, never a bare allocation (R13.4, [G]); corpus extended with record-typed defaults.",
		"C14": "Round 4: R14.4 restated on guards and the CFG (encoder gets the caller's verb; POST and cleared query before the request is built); R02.6.",
		"C15": "Round 4: R02.6 (no form parsers on Rest.li queries).",
		"C16": "Round 4: R01.9 (a batch key that is exactly '' survives).",
		"C17": "Round 4: package-level sync.Map registries are not updated by Load-then-Store (R17.10).",
		"C19": "Round 4: a kept host pointer ends the walk while the module's go directive is below 1.22 (R19.3).",
	} {
		if p := core.Properties[id]; p != nil {
			p.Explanation += "  " + text
		}
	}
}
