package rules

import (
	"fmt"
	"go/ast"
	"go/constant"
	"go/parser"
	"go/token"
	"go/types"
	"sort"
	"strings"

	"golang.org/x/tools/go/callgraph"

	"verif/checker/core"
)

type callgraphNode = callgraph.Node

// Rules added after the fifth seeding round.

func init() {
	core.Register(&core.Rule{
		ID:    "R04.10",
		Title: "the JSON reader decides \"outermost value\" before it fetches a token, and then insists on the end of the input",
		Text: "In every method of the JSON reader that keeps the answer of jlexer.Lexer.IsStart() in a local (IsStart is `pos == 0`): (a) on every path no other method of the lexer is called before IsStart — IsNull, Delim and the " +
			"other token-fetching calls advance the position, after which every value looks nested; (b) every return that may be a success and is reachable with the local possibly true has passed lexer.Consumed(), " +
			"the only test that nothing but white space follows the top-level value.  Otherwise `{…}garbage` decodes to a value and the request reaches the resource.",
		Props: []string{"C04", "C03"},
		Floor: map[string]int{"v2": 1, "root": 1},
		Run:   runR0410,
	})
	core.Register(&core.Rule{
		ID:    "R08.9",
		Title: "an error response never leaves with the status of a success",
		Text: "In rootNode.ServeHTTP, inside the branch that handles an *ErrorResponse: every path to the end of the branch assigns ctx.ResponseStatus — from the error's own Status under its nil test, or from a 5xx constant. " +
			"A path that keeps whatever the field held (200, or a status the implementation chose for the success case) sends the error body under a 2xx status.",
		Props: []string{"C08"},
		Floor: map[string]int{"v2": 1, "root": 1},
		Run:   runR089,
	})
	core.Register(&core.Rule{
		ID:    "R08.8",
		Title: "response bodies are read to the end",
		Text: "In package restli no bounded read is applied to the body of an *http.Response: no io.LimitReader / io.LimitedReader / http.MaxBytesReader wrapped around it and no io.CopyN / io.ReadFull / io.ReadAtLeast from it. " +
			"Error.ResponseBody and the decoded ErrorResponse are documented to be the peer's answer; a cut-off body is malformed JSON, so the typed error degrades into a decoding error. One obligation per ReadAll / Copy of a response body.",
		Props: []string{"C08", "C02"},
		Floor: map[string]int{"v2": 2, "root": 2},
		Run:   runR088,
	})
	core.Register(&core.Rule{
		ID:    "R19.4",
		Title: "an announcement is decoded entry for entry",
		Text: "In Uri.UnmarshalJSON every range loop over a map of the decoded document stores into the corresponding map of the Uri on every path through the loop body that reaches the next iteration: " +
			"no entry is filtered out while decoding (a host announced with weight 0 is still an announced host: it is eligible when nothing better exists, and an announcement that only has such hosts is not weight-less).",
		Props: []string{"C19"},
		Floor: map[string]int{"v2": 3, "root": 3},
		Run:   runR194,
	})
	core.Register(&core.Rule{
		ID:    "R20.6",
		Title: "the writer creates the directory each time; the cleaner drops the manifest before it lists",
		Text: "(a) In the generator packages, a function that both creates directories (os.MkdirAll) and writes a file (os.WriteFile, ioutil.WriteFile, os.Create, os.OpenFile) reaches every write only through MkdirAll: " +
			"whether the directory exists is asked of the file system each time, never remembered — a cleaned tree is regenerated in the same process. " +
			"(b) In CleanTargetDir every path to the listing of the directory (os.ReadDir, or the call of the closure that lists) has already removed the directory's manifest: " +
			"a manifest that is still there when the directory is listed keeps the directory non-empty, so it is never removed and cleaning twice differs from cleaning once.",
		Props: []string{"C20", "C12"},
		Floor: map[string]int{"v2": 2, "root": 2},
		Run:   runR206,
	})
	core.Register(&core.Rule{
		ID:    "R02.7",
		Title: "an envelope marshaler always writes what its own decoder requires",
		Text: "For every hand-written envelope type of restlidata/…/common whose decoder reads a record with a RequiredFields list (restlicodec.NewRequiredFields().Add(…)): " +
			"in MarshalRestLi, on every path of the WriteMap callback to a return that may be a success, keyWriter(F) has been called for each required F (calls of helper methods that receive keyWriter contribute what they always write). " +
			"An envelope section left out when it is empty is a missing required field on the other side.",
		Props: []string{"C02", "C03", "C06", "C16", "C08"},
		Floor: map[string]int{"v2": 4, "root": 4},
		Run:   runR027,
	})
	core.Register(&core.Rule{
		ID: "R10.9", Generated: true, GeneratedRoot: true,
		Title: "two nil pointers are equal",
		Text: "In every generated Equals with a pointer receiver that tests its operands against nil: no `return false` is reachable before the identity test `receiver == other` has been found false. " +
			"With the nil test first, nil.Equals(nil) is false while the hash of both is the zero hash, and an absent optional record differs from itself.",
		Props: []string{"C10"},
		Floor: map[string]int{"corpus": 10},
		Run:   runR109,
	})
}

// reachWithout runs the CFG of body and returns the nodes for which target is true that are reachable on a path on
// which no node had mark true before (calls inside function literals are not looked at).
func reachWithout(c *core.Ctx, inf *types.Info, body *ast.BlockStmt, errVar types.Object, mark func(ast.Node) bool, target func(ast.Node) bool) []ast.Node {
	seen := map[ast.Node]bool{}
	var out []ast.Node
	a := &core.Automaton{
		AtEnd: true,
		Node: func(st int, n ast.Node) int {
			if st == 0 && target(n) && !seen[n] {
				seen[n] = true
				out = append(out, n)
			}
			if mark(n) {
				return 1
			}
			return st
		},
	}
	if errVar != nil {
		a = core.TrackNil(inf, errVar, a)
	}
	core.NewFlow(c.M, inf, body).Run(a)
	sort.Slice(out, func(i, j int) bool { return out[i].Pos() < out[j].Pos() })
	return out
}

func hasCall(inf *types.Info, n ast.Node, pred func(*types.Func, *ast.CallExpr) bool) bool {
	for _, call := range core.CallsIn(n) {
		if f := core.Callee(inf, call); f != nil && pred(f, call) {
			return true
		}
	}
	return false
}

func runR0410(c *core.Ctx) {
	const rel = "restlicodec"
	inf := info(c, rel)
	isLexer := func(f *types.Func) bool {
		return f != nil && f.Pkg() != nil && strings.HasSuffix(f.Pkg().Path(), "easyjson/jlexer") && core.RecvNamed(f) != nil && core.NameOf(core.RecvNamed(f).Obj()) == "Lexer"
	}
	n := 0
	for _, fd := range c.M.FuncDecls(rel) {
		if fd.Body == nil {
			continue
		}
		// the local that keeps IsStart()
		var flag types.Object
		var sample ast.Node
		ast.Inspect(fd.Body, func(x ast.Node) bool {
			if _, ok := x.(*ast.FuncLit); ok {
				return false
			}
			if as, ok := x.(*ast.AssignStmt); ok && len(as.Lhs) == 1 && len(as.Rhs) == 1 {
				if call, ok := core.Unparen(as.Rhs[0]).(*ast.CallExpr); ok {
					if f := core.Callee(inf, call); isLexer(f) && core.NameOf(f) == "IsStart" {
						flag, sample = core.ObjOf(inf, as.Lhs[0]), as
					}
				}
			}
			return true
		})
		if flag == nil {
			continue
		}
		n++
		name := core.DeclName(fd)
		par := core.Parents(fd)
		sig, _ := inf.Defs[fd.Name].Type().(*types.Signature)
		// (a) nothing touches the lexer before the sample
		early := reachWithout(c, inf, fd.Body, nil,
			func(x ast.Node) bool {
				return x != sample && hasCall(inf, x, func(f *types.Func, _ *ast.CallExpr) bool { return isLexer(f) })
			},
			func(x ast.Node) bool { return x == sample })
		c.Check(len(early) == 1, rel, name, "IsStart() is sampled before any other call on the lexer", sample.Pos(), "",
			"a token-fetching call of the lexer can precede IsStart(): the position is no longer 0 and the outermost value is taken for a nested one, so trailing input is never rejected")
		// (b) success returns with the flag possibly true have passed Consumed()
		const (
			sConsumed = 1 << iota
			sFalse
		)
		var bad []string
		a := &core.Automaton{
			AtEnd: true,
			Node: func(st int, x ast.Node) int {
				if hasCall(inf, x, func(f *types.Func, _ *ast.CallExpr) bool { return isLexer(f) && core.NameOf(f) == "Consumed" }) {
					st |= sConsumed
				}
				if x == sample {
					st &^= sFalse | sConsumed
				}
				if r, ok := x.(*ast.ReturnStmt); ok && st&(sConsumed|sFalse) == 0 && core.ErrorReturn(inf, par, sig, r) != "error" {
					bad = append(bad, c.M.Position(r.Pos()))
				}
				return st
			},
			Edge: func(st int, facts []core.Fact) (int, bool) {
				for _, f := range facts {
					if f.Tag == nil && core.ObjOf(inf, f.Expr) == flag {
						if _, isId := core.Unparen(f.Expr).(*ast.Ident); isId {
							if f.Val {
								st &^= sFalse
							} else {
								st |= sFalse
							}
						}
					}
				}
				return st, true
			},
		}
		// before the sample the flag is not set yet: start as "not outermost" so that early error returns do not count
		a.Init = sFalse
		core.NewFlow(c.M, inf, fd.Body).Run(core.TrackNil(inf, core.MainErrorVar(inf, fd), a))
		c.Check(len(bad) == 0, rel, name, "every success return of the outermost value has passed Consumed()", fd.Pos(), "",
			"a return that may be a success is reachable for the outermost value without lexer.Consumed(): "+strings.Join(dedupe(bad), ", "))
	}
	if n == 0 {
		c.Unknown(rel, "-", "a JSON reader method samples IsStart()", token.NoPos, "none found: the end-of-input check cannot be located")
	}
}

func runR089(c *core.Ctx) {
	const rel = "restli"
	inf := info(c, rel)
	_, fd := mustDecl(c, rel, "(*rootNode).ServeHTTP")
	const fn = "(*rootNode).ServeHTTP"
	isErrResp := func(t types.Type) bool {
		nn := namedOf(t)
		return nn != nil && core.NameOf(nn.Obj()) == "ErrorResponse"
	}
	// booleans that say "the error is an *ErrorResponse": v, ok := err.(*ErrorResponse) / ok := errors.As(err, &target)
	okVars := map[types.Object]bool{}
	ast.Inspect(fd.Body, func(x ast.Node) bool {
		as, ok := x.(*ast.AssignStmt)
		if !ok || len(as.Rhs) != 1 {
			return true
		}
		switch r := core.Unparen(as.Rhs[0]).(type) {
		case *ast.TypeAssertExpr:
			if r.Type != nil && len(as.Lhs) == 2 && isErrResp(inf.Types[r.Type].Type) {
				okVars[core.ObjOf(inf, as.Lhs[1])] = true
			}
		case *ast.CallExpr:
			if f := core.Callee(inf, r); f != nil && f.Pkg() != nil && f.Pkg().Path() == "errors" && f.Name() == "As" && len(r.Args) == 2 && len(as.Lhs) == 1 {
				if t := inf.Types[r.Args[1]].Type; t != nil && isErrResp(derefAll(t)) {
					okVars[core.ObjOf(inf, as.Lhs[0])] = true
				}
			}
		}
		return true
	})
	isStatus := func(e ast.Expr) bool {
		fv, ok := core.ObjOf(inf, e).(*types.Var)
		return ok && fv.IsField() && core.NameOf(fv) == "ResponseStatus"
	}
	const (
		sErr = 1 << iota
		sAssigned
	)
	entered := false
	unassigned := ""
	core.NewFlow(c.M, inf, fd.Body).Run(&core.Automaton{
		AtEnd: true,
		Node: func(st int, x ast.Node) int {
			if as, ok := x.(*ast.AssignStmt); ok {
				for _, l := range as.Lhs {
					if isStatus(l) {
						st |= sAssigned
					}
				}
			}
			if st&sErr != 0 && st&sAssigned == 0 && unassigned == "" {
				for _, call := range core.CallsIn(x) {
					if f := core.Callee(inf, call); f != nil && (core.IsMethod(f, "net/http", "ResponseWriter", "WriteHeader") || core.IsMethod(f, "net/http", "ResponseWriter", "Write") || core.NameOf(f) == "WriteHeader") {
						unassigned = c.M.Position(call.Pos())
					}
				}
			}
			return st
		},
		Edge: func(st int, facts []core.Fact) (int, bool) {
			for _, f := range facts {
				if f.Tag != nil || !f.Val {
					continue
				}
				hit := false
				switch e := core.Unparen(f.Expr).(type) {
				case *ast.Ident:
					hit = okVars[core.ObjOf(inf, e)]
				case *ast.TypeAssertExpr:
					hit = e.Type != nil && isErrResp(inf.Types[e.Type].Type)
				case *ast.CallExpr:
					if g := core.Callee(inf, e); g != nil && g.Pkg() != nil && g.Pkg().Path() == "errors" && g.Name() == "As" && len(e.Args) == 2 {
						if t := inf.Types[e.Args[1]].Type; t != nil && isErrResp(derefAll(t)) {
							hit = true
						}
					}
				}
				if hit {
					entered = true
					st = sErr // what was assigned before the error was recognised does not count
				}
			}
			return st, true
		},
	})
	if !entered {
		c.Unknown(rel, fn, "the *ErrorResponse branch", fd.Pos(), "no edge of the control-flow graph establishes that the error is an *ErrorResponse (type assertion, type switch clause or errors.As)")
		return
	}
	c.Check(unassigned == "", rel, fn, "every path through the *ErrorResponse branch assigns ResponseStatus", fd.Pos(), "",
		"the response is written at "+unassigned+" on a path where the error is an *ErrorResponse and ResponseStatus was not assigned since: the error body is sent with whatever status the context held")
	// what is assigned: the error's own status (under its nil test) or a constant >= 400
	ast.Inspect(fd.Body, func(x ast.Node) bool {
		as, ok := x.(*ast.AssignStmt)
		if !ok || len(as.Lhs) != len(as.Rhs) {
			return true
		}
		for i, l := range as.Lhs {
			if !isStatus(l) {
				continue
			}
			rhs := as.Rhs[i]
			if cv := core.ConstOf(inf, rhs); cv != nil {
				v, _ := constant.Int64Val(cv)
				c.Check(v >= 400 && v <= 599, rel, fn, "fallback status of an error response is an error status", rhs.Pos(), cv.ExactString(), "the fallback status "+cv.ExactString()+" is not a 4xx/5xx code")
			}
		}
		return true
	})
}

func derefAll(t types.Type) types.Type {
	for {
		p, ok := t.(*types.Pointer)
		if !ok {
			return t
		}
		if nn := namedOf(p.Elem()); nn != nil {
			return p.Elem()
		}
		t = p.Elem()
	}
}

func runR088(c *core.Ctx) {
	const rel = "restli"
	inf := info(c, rel)
	isRespBody := func(e ast.Expr) bool {
		var visit func(e ast.Expr, depth int) bool
		visit = func(e ast.Expr, depth int) bool {
			e = core.Unparen(e)
			switch x := e.(type) {
			case *ast.SelectorExpr:
				if fv, ok := core.ObjOf(inf, x).(*types.Var); ok && fv.IsField() && core.NameOf(fv) == "Body" {
					if nn := namedOf(inf.Types[x.X].Type); nn != nil && nn.Obj().Pkg() != nil && nn.Obj().Pkg().Path() == "net/http" && core.NameOf(nn.Obj()) == "Response" {
						return true
					}
				}
			case *ast.CallExpr:
				if depth < 3 {
					for _, a := range x.Args {
						if visit(a, depth+1) {
							return true
						}
					}
				}
			}
			return false
		}
		return visit(e, 0)
	}
	reads := 0
	for _, fd := range c.M.FuncDecls(rel) {
		if fd.Body == nil {
			continue
		}
		name := core.DeclName(fd)
		ast.Inspect(fd.Body, func(x ast.Node) bool {
			switch y := x.(type) {
			case *ast.CallExpr:
				f := core.Callee(inf, y)
				if f == nil || f.Pkg() == nil {
					return true
				}
				full := f.Pkg().Path() + "." + core.NameOf(f)
				switch full {
				case "io.ReadAll", "io/ioutil.ReadAll", "io.Copy":
					arg := y.Args[len(y.Args)-1]
					if !isRespBody(arg) {
						return true
					}
					reads++
					bounded := ""
					ast.Inspect(arg, func(z ast.Node) bool {
						if call, ok := z.(*ast.CallExpr); ok {
							if g := core.Callee(inf, call); g != nil && g.Pkg() != nil {
								switch g.Pkg().Path() + "." + core.NameOf(g) {
								case "io.LimitReader", "net/http.MaxBytesReader", "io.NewSectionReader":
									bounded = g.Pkg().Path() + "." + core.NameOf(g)
								}
							}
						}
						if cl, ok := z.(*ast.CompositeLit); ok {
							if nn := namedOf(inf.Types[cl].Type); nn != nil && core.NameOf(nn.Obj()) == "LimitedReader" {
								bounded = "io.LimitedReader"
							}
						}
						return true
					})
					c.Check(bounded == "", rel, name, fmt.Sprintf("%s of a response body #%d reads the whole body", core.NameOf(f), ordinal(fd, y)), y.Pos(), core.ExprString(arg),
						"the response body is read through "+bounded+": a longer body is cut off and no longer decodes")
				case "io.CopyN", "io.ReadFull", "io.ReadAtLeast":
					for _, a := range y.Args {
						if isRespBody(a) {
							reads++
							c.Bad(rel, name, fmt.Sprintf("%s of a response body #%d reads the whole body", core.NameOf(f), ordinal(fd, y)), y.Pos(), full+" reads a bounded number of bytes from the response body")
						}
					}
				}
			}
			return true
		})
	}
	if reads == 0 {
		c.Unknown(rel, "-", "reads of response bodies", token.NoPos, "no ReadAll / Copy of an http.Response body found in package restli")
	}
}

func runR194(c *core.Ctx) {
	const rel = "d2"
	inf := info(c, rel)
	_, fd := mustDecl(c, rel, "(*Uri).UnmarshalJSON")
	recv := recvObj(inf, fd)
	n := 0
	ast.Inspect(fd.Body, func(x ast.Node) bool {
		rs, ok := x.(*ast.RangeStmt)
		if !ok {
			return true
		}
		if _, isMap := inf.Types[rs.X].Type.Underlying().(*types.Map); !isMap {
			return true
		}
		// only the loops over the decoded document (not over the receiver's own maps)
		if r := rootIdent(rs.X); r != nil && inf.Uses[r] == recv {
			return true
		}
		// nested loops that fill an inner map are checked as part of the outer loop only when they range over a loop variable
		if r := rootIdent(rs.X); r != nil {
			if v, ok := inf.Uses[r].(*types.Var); ok && v.Pos() > fd.Body.Pos() && !strings.Contains(core.ExprString(rs.X), ".") {
				if _, isField := core.Unparen(rs.X).(*ast.SelectorExpr); !isField {
					// ranging over a plain local (the value of an outer loop): still an entry-for-entry copy
				}
			}
		}
		n++
		isStore := func(y ast.Node) bool {
			as, ok := y.(*ast.AssignStmt)
			if !ok {
				return false
			}
			for _, l := range as.Lhs {
				if ix, ok := core.Unparen(l).(*ast.IndexExpr); ok {
					if r := rootIdent(ix.X); r != nil && inf.Uses[r] == recv {
						return true
					}
				}
			}
			return false
		}
		skipped := ""
		a := &core.Automaton{
			AtEnd: true,
			Node: func(st int, y ast.Node) int {
				if isStore(y) {
					return 1
				}
				return st
			},
		}
		// the end of the loop body (falling off its end, or `continue`) with st == 0 is an entry that was not stored
		fl := core.NewFlow(c.M, inf, rs.Body)
		a.Node = func(st int, y ast.Node) int {
			if isStore(y) {
				return 1
			}
			if y == ast.Node(fl.End) && st == 0 && skipped == "" {
				skipped = "the end of the loop body"
			}
			if b, ok := y.(*ast.BranchStmt); ok && b.Tok == token.CONTINUE && st == 0 && skipped == "" {
				skipped = "the continue at " + c.M.Position(b.Pos())
			}
			return st
		}
		fl.Run(a)
		c.Check(skipped == "", rel, "(*Uri).UnmarshalJSON", fmt.Sprintf("range over %s stores every entry", core.ExprString(rs.X)), rs.Pos(), "",
			skipped+" is reachable without a store into the Uri: an announced entry is dropped while decoding")
		return true
	})
	if n == 0 {
		c.Unknown(rel, "(*Uri).UnmarshalJSON", "loops over the decoded document", fd.Pos(), "none found")
	}
}

func runR206(c *core.Ctx) {
	n := 0
	for _, rel := range []string{"codegen/utils", "cmd", "codegen/types", "codegen/resources"} {
		if c.M.Pkg(rel) == nil {
			continue
		}
		inf := info(c, rel)
		isOS := func(f *types.Func, names ...string) bool {
			if f == nil || f.Pkg() == nil {
				return false
			}
			for _, nm := range names {
				if i := strings.LastIndex(nm, "."); f.Pkg().Path() == nm[:i] && core.NameOf(f) == nm[i+1:] {
					return true
				}
			}
			return false
		}
		for _, fd := range c.M.FuncDecls(rel) {
			if fd.Body == nil {
				continue
			}
			bodies := []*ast.BlockStmt{fd.Body}
			for _, fl := range core.AllFuncLits(fd.Body) {
				bodies = append(bodies, fl.Body)
			}
			for _, body := range bodies {
				mk, wr := false, false
				core.WalkNoFuncLit(body, func(x ast.Node) bool {
					if call, ok := x.(*ast.CallExpr); ok {
						f := core.Callee(inf, call)
						if isOS(f, "os.MkdirAll", "os.Mkdir") {
							mk = true
						}
						if isOS(f, "os.WriteFile", "io/ioutil.WriteFile", "os.Create", "os.OpenFile") {
							wr = true
						}
					}
					return true
				})
				if !mk || !wr {
					continue
				}
				n++
				bad := reachWithout(c, inf, body, nil,
					func(x ast.Node) bool {
						return hasCall(inf, x, func(f *types.Func, _ *ast.CallExpr) bool { return isOS(f, "os.MkdirAll", "os.Mkdir") })
					},
					func(x ast.Node) bool {
						return hasCall(inf, x, func(f *types.Func, _ *ast.CallExpr) bool {
							return isOS(f, "os.WriteFile", "io/ioutil.WriteFile", "os.Create", "os.OpenFile")
						})
					})
				where := ""
				if len(bad) > 0 {
					where = c.M.Position(bad[0].Pos())
				}
				c.Check(len(bad) == 0, rel, core.DeclName(fd), "every file write is preceded by MkdirAll on every path", fd.Pos(), "",
					"the write at "+where+" is reachable on a path that skips MkdirAll: the directory's existence is assumed (remembered), so regeneration after cleaning in the same process fails")
			}
		}
	}
	// (b) the cleaner: everything CleanTargetDir reaches in its package, closures included.  needs(body) = the body can
	// reach a listing (os.ReadDir directly, or a call of a cleaner body that needs) on a path that has not removed the
	// manifest before; the entry point must not need.
	const rel = "codegen/utils"
	inf := info(c, rel)
	cf, fd := mustDecl(c, rel, "CleanTargetDir")
	mentionsManifest := func(x ast.Node) bool {
		found := false
		ast.Inspect(x, func(y ast.Node) bool {
			e, ok := y.(ast.Expr)
			if !ok {
				return true
			}
			switch e.(type) {
			case *ast.Ident, *ast.SelectorExpr:
			default:
				return true
			}
			// a package-level string constant, or a struct field that every literal initialises with one (see R20.1)
			if k, ok := constObj(c, inf, e).(*types.Const); ok && k.Pkg() != nil && k.Parent() == k.Pkg().Scope() && k.Val().Kind() == constant.String && c.M.InModule(k.Pkg()) {
				found = true
			}
			return true
		})
		return found
	}
	type bodyKey interface{}
	bodies := map[bodyKey]*ast.BlockStmt{}
	for _, cfd := range cleanerComponent(c, rel, cf) {
		if f, _ := inf.Defs[cfd.Name].(*types.Func); f != nil {
			bodies[f] = cfd.Body
		}
		ast.Inspect(cfd.Body, func(x ast.Node) bool {
			if as, ok := x.(*ast.AssignStmt); ok && len(as.Lhs) == 1 && len(as.Rhs) == 1 {
				if fl, ok := core.Unparen(as.Rhs[0]).(*ast.FuncLit); ok {
					if o := core.ObjOf(inf, as.Lhs[0]); o != nil {
						bodies[o] = fl.Body
					}
				}
			}
			return true
		})
	}
	calleeBody := func(call *ast.CallExpr) bodyKey {
		if f := core.Callee(inf, call); f != nil {
			if _, ok := bodies[f.Origin()]; ok {
				return f.Origin()
			}
		}
		if o := core.ObjOf(inf, call.Fun); o != nil {
			if _, ok := bodies[o]; ok {
				return o
			}
		}
		return nil
	}
	isReadDir := func(call *ast.CallExpr) bool {
		f := core.Callee(inf, call)
		return f != nil && f.Pkg() != nil && (f.Pkg().Path() == "os" || f.Pkg().Path() == "io/ioutil") && (f.Name() == "ReadDir" || f.Name() == "Readdir" || f.Name() == "Readdirnames")
	}
	isManifestRemove := func(x ast.Node) bool {
		for _, call := range core.CallsIn(x) {
			if f := core.Callee(inf, call); f != nil && f.Pkg() != nil && f.Pkg().Path() == "os" && (f.Name() == "Remove" || f.Name() == "RemoveAll") && mentionsManifest(call) {
				return true
			}
		}
		return false
	}
	needs := map[bodyKey]bool{}
	where := map[bodyKey]token.Pos{}
	listings := 0
	for _, body := range bodies {
		ast.Inspect(body, func(x ast.Node) bool {
			if call, ok := x.(*ast.CallExpr); ok && isReadDir(call) {
				listings++
			}
			return true
		})
	}
	for round := 0; round < 6; round++ {
		changed := false
		for k, body := range bodies {
			if needs[k] {
				continue
			}
			early := reachWithout(c, inf, body, nil, isManifestRemove, func(x ast.Node) bool {
				for _, call := range core.CallsIn(x) {
					if isReadDir(call) {
						return true
					}
					if cb := calleeBody(call); cb != nil && needs[cb] {
						return true
					}
				}
				return false
			})
			if len(early) > 0 {
				needs[k] = true
				where[k] = early[0].Pos()
				changed = true
			}
		}
		if !changed {
			break
		}
	}
	if listings == 0 {
		c.Unknown(rel, "CleanTargetDir", "the listing of the directory", fd.Pos(), "no os.ReadDir in anything CleanTargetDir reaches in its package")
		return
	}
	c.Check(!needs[cf], rel, "CleanTargetDir", "the manifest is removed before the directory is listed", fd.Pos(), "",
		"starting at "+c.M.Position(where[cf])+" the directory is listed on a path that has not removed its manifest yet: the manifest keeps the directory non-empty, it is never removed and a second clean differs from the first")
	_ = n
}

func runR027(c *core.Ctx) {
	rel := ""
	for r := range c.M.Pkgs {
		if strings.HasSuffix(r, "com/linkedin/restli/common") || (r == "restlidata" && rel == "") {
			rel = r
		}
	}
	if rel == "" {
		c.Unknown("-", "-", "package common", token.NoPos, "restlidata/generated/com/linkedin/restli/common is not loaded")
		return
	}
	inf := info(c, rel)
	p := c.M.Pkg(rel)
	// RequiredFields variables -> field constants
	required := map[types.Object][]types.Object{}
	for _, file := range p.Syntax {
		for _, d := range file.Decls {
			gd, ok := d.(*ast.GenDecl)
			if !ok || gd.Tok != token.VAR {
				continue
			}
			for _, sp := range gd.Specs {
				vs := sp.(*ast.ValueSpec)
				for i, nm := range vs.Names {
					if i >= len(vs.Values) {
						continue
					}
					nn := namedOf(inf.Defs[nm].Type())
					if nn == nil || core.NameOf(nn.Obj()) != "RequiredFields" {
						continue
					}
					var fields []types.Object
					ast.Inspect(vs.Values[i], func(x ast.Node) bool {
						if call, ok := x.(*ast.CallExpr); ok {
							if f := core.Callee(inf, call); f != nil && core.NameOf(f) == "Add" {
								for _, a := range call.Args {
									if o := core.ObjOf(inf, a); o != nil {
										fields = append(fields, o)
									}
								}
							}
						}
						if cl, ok := x.(*ast.CompositeLit); ok {
							for _, a := range cl.Elts {
								if o := core.ObjOf(inf, a); o != nil {
									fields = append(fields, o)
								}
							}
						}
						return true
					})
					required[inf.Defs[nm]] = fields
				}
			}
		}
	}
	// per receiver type: the required lists its methods mention, and its MarshalRestLi
	type envT struct {
		marshal *ast.FuncDecl
		req     map[types.Object]bool
	}
	envs := map[string]*envT{}
	var order []string
	for _, fd := range c.M.FuncDecls(rel) {
		if fd.Recv == nil || fd.Body == nil || strings.HasSuffix(c.M.Fset.File(fd.Pos()).Name(), ".gr.go") {
			continue
		}
		dn := core.DeclName(fd)
		recv := dn[:strings.LastIndex(dn, ".")]
		e := envs[recv]
		if e == nil {
			e = &envT{req: map[types.Object]bool{}}
			envs[recv] = e
			order = append(order, recv)
		}
		if fd.Name.Name == "MarshalRestLi" {
			e.marshal = fd
		}
		ast.Inspect(fd.Body, func(x ast.Node) bool {
			if id, ok := x.(*ast.Ident); ok {
				if fs, ok := required[inf.Uses[id]]; ok {
					for _, f := range fs {
						e.req[f] = true
					}
				}
			}
			return true
		})
	}
	sort.Strings(order)
	isKeyWriterType := func(t types.Type) bool {
		sig, ok := t.Underlying().(*types.Signature)
		if !ok || sig.Params().Len() != 1 || sig.Results().Len() != 1 {
			return false
		}
		b, ok := sig.Params().At(0).Type().Underlying().(*types.Basic)
		return ok && b.Info()&types.IsString != 0
	}
	// must(body, kw): the field constants F with kw(F) called on every path to a possibly successful return
	var must func(body *ast.BlockStmt, sig *types.Signature, par map[ast.Node]ast.Node, kw types.Object, errVar types.Object, depth int) map[types.Object]bool
	must = func(body *ast.BlockStmt, sig *types.Signature, par map[ast.Node]ast.Node, kw types.Object, errVar types.Object, depth int) map[types.Object]bool {
		// candidate fields: everything written anywhere
		var cands []types.Object
		idx := map[types.Object]int{}
		add := func(o types.Object) {
			if _, ok := idx[o]; !ok && o != nil && len(cands) < 12 {
				idx[o] = len(cands)
				cands = append(cands, o)
			}
		}
		writes := func(x ast.Node) []types.Object {
			var out []types.Object
			for _, call := range core.CallsIn(x) {
				if core.ObjOf(inf, call.Fun) == kw && len(call.Args) == 1 {
					if o := core.ObjOf(inf, call.Args[0]); o != nil {
						out = append(out, o)
					}
					continue
				}
				// a helper that receives the key writer
				if depth >= 3 {
					continue
				}
				f := core.Callee(inf, call)
				if f == nil {
					continue
				}
				hd := c.M.Decl(f.Origin())
				if hd == nil || hd.Body == nil {
					continue
				}
				for i, a := range call.Args {
					if core.ObjOf(inf, a) != kw {
						continue
					}
					// the i-th parameter of the helper
					k := 0
					var pobj types.Object
					for _, fl := range hd.Type.Params.List {
						for _, nm := range fl.Names {
							if k == i {
								pobj = inf.Defs[nm]
							}
							k++
						}
					}
					if pobj == nil {
						continue
					}
					hsig, _ := inf.Defs[hd.Name].Type().(*types.Signature)
					for o := range must(hd.Body, hsig, core.Parents(hd), pobj, core.MainErrorVar(inf, hd), depth+1) {
						out = append(out, o)
					}
				}
			}
			return out
		}
		core.WalkNoFuncLit(body, func(x ast.Node) bool {
			if s, ok := x.(ast.Stmt); ok {
				if _, isBlock := s.(*ast.BlockStmt); !isBlock {
					for _, o := range writes(s) {
						add(o)
					}
				}
			}
			return true
		})
		all := 0
		for range cands {
			all = all<<1 | 1
		}
		result := all
		sawReturn := false
		a := &core.Automaton{
			AtEnd: true,
			Node: func(st int, x ast.Node) int {
				if _, isStmt := x.(ast.Stmt); isStmt || true {
					for _, o := range writes(x) {
						if i, ok := idx[o]; ok {
							st |= 1 << i
						}
					}
				}
				if r, ok := x.(*ast.ReturnStmt); ok && core.ErrorReturn(inf, par, sig, r) != "error" {
					sawReturn = true
					result &= st
				}
				return st
			},
		}
		fl := core.NewFlow(c.M, inf, body)
		if errVar != nil {
			fl.Run(core.TrackNil(inf, errVar, a))
		} else {
			fl.Run(a)
		}
		out := map[types.Object]bool{}
		if !sawReturn {
			return out
		}
		for o, i := range idx {
			if result&(1<<i) != 0 {
				out[o] = true
			}
		}
		return out
	}
	n := 0
	for _, recv := range order {
		e := envs[recv]
		if e.marshal == nil || len(e.req) == 0 {
			continue
		}
		name := core.DeclName(e.marshal)
		// the WriteMap callback: a function literal (or folded method value) with a key-writer parameter
		var cb *ast.FuncLit
		for _, fl := range core.AllFuncLits(e.marshal.Body) {
			if fl.Type.Params != nil && len(fl.Type.Params.List) == 1 && len(fl.Type.Params.List[0].Names) == 1 && isKeyWriterType(inf.Defs[fl.Type.Params.List[0].Names[0]].Type()) {
				cb = fl
				break
			}
		}
		if cb == nil {
			c.Unknown(rel, name, "WriteMap callback", e.marshal.Pos(), "no function literal with a key-writer parameter found")
			continue
		}
		kw := inf.Defs[cb.Type.Params.List[0].Names[0]]
		sig, _ := inf.Types[cb].Type.(*types.Signature)
		var errVar types.Object
		if cb.Type.Results != nil {
			for _, fl := range cb.Type.Results.List {
				for _, nm := range fl.Names {
					if core.IsErrorType(inf.Defs[nm].Type()) {
						errVar = inf.Defs[nm]
					}
				}
			}
		}
		if errVar == nil {
			// the error variable the callback tests
			ast.Inspect(cb.Body, func(x ast.Node) bool {
				if id, ok := x.(*ast.Ident); ok && errVar == nil {
					if v, ok := inf.Uses[id].(*types.Var); ok && core.IsErrorType(v.Type()) && !v.IsField() {
						errVar = v
					}
				}
				return true
			})
		}
		got := must(cb.Body, sig, core.Parents(cb), kw, errVar, 0)
		var reqs []types.Object
		for o := range e.req {
			reqs = append(reqs, o)
		}
		sort.Slice(reqs, func(i, j int) bool { return reqs[i].Name() < reqs[j].Name() })
		for _, o := range reqs {
			n++
			c.Check(got[o], rel, name, "required field "+core.NameOf(o)+" is written on every success path", cb.Pos(), "",
				"the decoder of "+recv+" requires "+core.NameOf(o)+", but a path of the marshaler returns without keyWriter("+core.NameOf(o)+"): the peer reports a missing required field")
		}
	}
	if n == 0 {
		c.Unknown(rel, "-", "envelope types with a required-fields list and a marshaler", token.NoPos, "none found")
	}
}

func runR109(c *core.Ctx) {
	if c.Corpus.Failure != "" {
		return
	}
	for _, g := range genModel(c) {
		fd := g.Methods["Equals"]
		if fd == nil || fd.Body == nil || fd.Recv == nil || len(fd.Recv.List) != 1 || len(fd.Recv.List[0].Names) != 1 {
			continue
		}
		inf := g.inf()
		recv := inf.Defs[fd.Recv.List[0].Names[0]]
		if recv == nil {
			continue
		}
		if _, isPtr := recv.Type().(*types.Pointer); !isPtr {
			continue
		}
		if fd.Type.Params == nil || len(fd.Type.Params.List) != 1 || len(fd.Type.Params.List[0].Names) != 1 {
			continue
		}
		other := inf.Defs[fd.Type.Params.List[0].Names[0]]
		if _, isPtr := other.Type().(*types.Pointer); !isPtr {
			continue
		}
		// does it test its operands against nil at all?
		nilTest := false
		ast.Inspect(fd.Body, func(x ast.Node) bool {
			if be, ok := x.(*ast.BinaryExpr); ok && (be.Op == token.EQL || be.Op == token.NEQ) {
				if (core.IsNil(inf, be.Y) && (core.ObjOf(inf, be.X) == recv || core.ObjOf(inf, be.X) == other)) || (core.IsNil(inf, be.X) && (core.ObjOf(inf, be.Y) == recv || core.ObjOf(inf, be.Y) == other)) {
					nilTest = true
				}
			}
			return true
		})
		if !nilTest {
			continue
		}
		isIdentity := func(e ast.Expr) bool {
			be, ok := core.Unparen(e).(*ast.BinaryExpr)
			if !ok || (be.Op != token.EQL && be.Op != token.NEQ) {
				return false
			}
			a, b := core.ObjOf(inf, be.X), core.ObjOf(inf, be.Y)
			return (a == recv && b == other) || (a == other && b == recv)
		}
		early := ""
		core.NewFlow(c.M, inf, fd.Body).Run(&core.Automaton{
			Node: func(st int, x ast.Node) int {
				if r, ok := x.(*ast.ReturnStmt); ok && st == 0 && len(r.Results) == 1 && early == "" {
					if cv := core.ConstOf(inf, r.Results[0]); cv != nil && cv.Kind() == constant.Bool && !constant.BoolVal(cv) {
						early = c.M.Position(r.Pos())
					}
				}
				return st
			},
			Edge: func(st int, facts []core.Fact) (int, bool) {
				for _, f := range facts {
					if f.Tag == nil && isIdentity(f.Expr) {
						be := core.Unparen(f.Expr).(*ast.BinaryExpr)
						// identity known false: `==` false or `!=` true
						if (be.Op == token.EQL && !f.Val) || (be.Op == token.NEQ && f.Val) {
							st = 1
						}
					}
				}
				return st, true
			},
		})
		c.Check(early == "", g.Rel, g.Name, "Equals: no `return false` before the identity test has failed", fd.Pos(), "",
			"`return false` at "+early+" is reachable while receiver == other may still hold: two nil pointers compare unequal")
	}
}

func init() {
	core.Register(&core.Rule{
		ID:    "R03.4",
		Title: "ROR2 Skip: the delimiter decision table is the grammar's",
		Text: "The scanning loop of ror2Reader.Skip is read as a decision table (A-finite: one iteration of the loop body evaluated for each row): current byte in { '(' , ',' , ')' , other } x the value being skipped is a primitive / an array / a map " +
			"(atArray(), atMap() as atoms, through whatever flags the function derives from them) x nesting depth 0..3 (the loop's integer counter relative to its initial value). Expected per row: '(' opens a level in a composite and is an error in a primitive; " +
			"',' and ')' end the value exactly at depth 0 and otherwise ',' changes nothing and ')' closes one level; any other byte changes nothing. The statement after the loop returns an error (input ended inside the value). " +
			"A Skip that stops early or late hands the rest of the enclosing object to the wrong field: unknown fields are then not skipped without disturbing their neighbours.",
		Props: []string{"C03", "C06", "C04"},
		Floor: map[string]int{"v2": 20, "root": 20},
		Run:   runR034,
	})
}

func runR034(c *core.Ctx) {
	const rel = "restlicodec"
	inf := info(c, rel)
	_, fd := mustDecl(c, rel, "(*ror2Reader).Skip")
	const fn = "(*ror2Reader).Skip"
	recv := recvObj(inf, fd)
	isDataAtPos := func(e ast.Expr) bool {
		ix, ok := core.Unparen(e).(*ast.IndexExpr)
		if !ok {
			return false
		}
		r := rootIdent(ix.X)
		if r == nil || inf.Uses[r] != recv {
			return false
		}
		s, ok := inf.Types[ix.X].Type.Underlying().(*types.Slice)
		if !ok {
			return false
		}
		b, ok := s.Elem().Underlying().(*types.Basic)
		return ok && b.Kind() == types.Uint8
	}
	scans := func(fs *ast.ForStmt) bool {
		uses := false
		ast.Inspect(fs.Body, func(x ast.Node) bool {
			if e, ok := x.(ast.Expr); ok && isDataAtPos(e) {
				uses = true
			}
			return true
		})
		return uses
	}
	isPosField := func(e ast.Expr) bool {
		sel, ok := core.Unparen(e).(*ast.SelectorExpr)
		if !ok {
			return false
		}
		fv, ok := core.ObjOf(inf, sel).(*types.Var)
		return ok && fv.IsField() && core.ObjOf(inf, sel.X) == recv && core.NameOf(fv) == "pos"
	}
	type mode struct {
		name           string
		atArray, atMap bool
	}
	modes := []mode{{"primitive", false, false}, {"array", true, false}, {"map", false, true}}
	bytes := []struct {
		name string
		b    byte
	}{{"'('", '('}, {"','", ','}, {"')'", ')'}, {"other", 'x'}}
	par := core.Parents(fd)
	checkedAfter := map[*ast.ForStmt]bool{}
	for _, md := range modes {
		// the scanning loop this kind of value reaches: the function is evaluated from its start (not at input start: the
		// value is nested), with atArray() / atMap() as atoms, up to the first loop that looks at data[pos]
		var cur byte
		mk := func() *core.FinInterp {
			it := &core.FinInterp{Info: inf, M: c.M}
			it.Bind = func(e ast.Expr, env core.FinEnv) (interface{}, bool) {
				if isDataAtPos(e) {
					return int64(cur), true
				}
				if be, ok := e.(*ast.BinaryExpr); ok && (be.Op == token.EQL || be.Op == token.NEQ) && isPosField(be.X) {
					if cv := core.ConstOf(inf, be.Y); cv != nil && cv.ExactString() == "0" {
						return be.Op == token.NEQ, true // pos != 0
					}
				}
				if call, ok := e.(*ast.CallExpr); ok {
					if f := core.Callee(inf, call); f != nil {
						switch core.NameOf(f) {
						case "atArray":
							return md.atArray, true
						case "atMap":
							return md.atMap, true
						}
					}
				}
				return nil, false
			}
			return it
		}
		it := mk()
		it.StopAt = func(st ast.Stmt) bool {
			fs, ok := st.(*ast.ForStmt)
			return ok && scans(fs)
		}
		env0 := core.FinEnv{}
		out, err := it.Exec(fd.Body.List, env0)
		if err != nil || out.Kind != "stop" {
			why := "no loop that looks at data[pos] is reached"
			if err != nil {
				why = err.Error()
			}
			c.Unknown(rel, fn, "scanning loop for a "+md.name+" value", fd.Pos(), why)
			continue
		}
		loop := out.Stop.(*ast.ForStmt)
		// the statement after the loop (in its own list) returns an error
		if !checkedAfter[loop] {
			checkedAfter[loop] = true
			afterOK := false
			if list, idx := core.StmtListOf(par, loop); idx >= 0 && idx+1 < len(list) {
				if r, ok := list[idx+1].(*ast.ReturnStmt); ok && len(r.Results) == 1 && !core.IsNil(inf, r.Results[0]) {
					afterOK = true
				}
			}
			c.Check(afterOK, rel, fn, fmt.Sprintf("input that ends inside the skipped value is an error (loop #%d)", ordinal(fd, loop)), loop.End(), "", "the statement after the scanning loop is not the return of an error")
		}
		// the counter: the integer local the loop body modifies (none: the loop never nests)
		var counter types.Object
		nCounters := 0
		ast.Inspect(loop.Body, func(x ast.Node) bool {
			var target ast.Expr
			switch y := x.(type) {
			case *ast.IncDecStmt:
				target = y.X
			case *ast.AssignStmt:
				if len(y.Lhs) == 1 {
					target = y.Lhs[0]
				}
			}
			if id, ok := target.(*ast.Ident); ok {
				if o := core.ObjOf(inf, id); o != nil && o != counter && core.ObjPos(o) < loop.Pos() {
					if b, ok := o.Type().Underlying().(*types.Basic); ok && b.Info()&types.IsInteger != 0 {
						counter = o
						nCounters++
					}
				}
			}
			return true
		})
		if nCounters > 1 {
			c.Unknown(rel, fn, "nesting counter for a "+md.name+" value", loop.Pos(), fmt.Sprintf("the loop body modifies %d integer locals (expected at most one nesting counter)", nCounters))
			continue
		}
		var c0 int64
		if counter != nil {
			v, ok := out.Env[counter].(int64)
			if !ok {
				c.Unknown(rel, fn, "nesting counter for a "+md.name+" value", loop.Pos(), "the nesting counter has no constant initial value")
				continue
			}
			c0 = v
		}
		for _, bt := range bytes {
			for k := int64(0); k <= 3; k++ {
				if (md.name == "primitive" || counter == nil) && k > 0 {
					continue
				}
				construct := fmt.Sprintf("row byte=%s value=%s depth=%d", bt.name, md.name, k)
				cur = bt.b
				env := core.FinEnv{}
				for o, v := range out.Env {
					env[o] = v
				}
				if counter != nil {
					env[counter] = c0 + k
				}
				res, err := mk().Exec(loop.Body.List, env)
				if err != nil {
					c.Unknown(rel, fn, construct, loop.Pos(), "undecided: "+err.Error())
					continue
				}
				got := ""
				switch res.Kind {
				case "return":
					if len(res.Ret.Results) == 1 && core.IsNil(inf, res.Ret.Results[0]) {
						got = "stop"
					} else {
						got = "error"
					}
				default:
					got = fmt.Sprintf("continue at depth %d", k)
					if counter != nil {
						if v, ok := res.Env[counter].(int64); ok {
							got = fmt.Sprintf("continue at depth %d", v-c0)
						} else {
							got = "continue at an unknown depth"
						}
					}
				}
				composite := md.name != "primitive"
				want := fmt.Sprintf("continue at depth %d", k)
				switch bt.b {
				case '(':
					if composite {
						want = fmt.Sprintf("continue at depth %d", k+1)
					} else {
						want = "error"
					}
				case ',':
					if !composite || k == 0 {
						want = "stop"
					}
				case ')':
					if !composite || k == 0 {
						want = "stop"
					} else {
						want = fmt.Sprintf("continue at depth %d", k-1)
					}
				}
				c.Check(got == want, rel, fn, construct, loop.Pos(), got, "the loop does: "+got+"; the ROR2 grammar requires: "+want)
			}
		}
	}
}

func init() {
	core.Register(&core.Rule{
		ID:    "R07.11",
		Title: "every node of an exclusion spec is its own map",
		Text: "In restlicodec every value stored into a PathSpec (`spec[segment] = v`) is a map made for that entry: make(PathSpec), a composite literal, or a local all of whose assignments are such allocations or lookups in a PathSpec of the same tree. " +
			"Never a package-level value and never a local that may hold one: a node shared between directives (a common leaf) is extended by the next directive that continues below it, which silently adds exclusions to every other path ending in that leaf.",
		Props: []string{"C07", "C11"},
		Floor: map[string]int{"v2": 1, "root": 1},
		Run:   runR0711,
	})
}

func runR0711(c *core.Ctx) {
	const rel = "restlicodec"
	inf := info(c, rel)
	isPathSpec := func(t types.Type) bool {
		nn := namedOf(t)
		return nn != nil && core.NameOf(nn.Obj()) == "PathSpec"
	}
	n := 0
	for _, fd := range c.M.FuncDecls(rel) {
		if fd.Body == nil {
			continue
		}
		// all assignments per local
		defs := map[types.Object][]ast.Expr{}
		ast.Inspect(fd.Body, func(x ast.Node) bool {
			switch y := x.(type) {
			case *ast.AssignStmt:
				for i, l := range y.Lhs {
					if id, ok := core.Unparen(l).(*ast.Ident); ok {
						if o := core.ObjOf(inf, id); o != nil {
							if len(y.Lhs) == len(y.Rhs) {
								defs[o] = append(defs[o], y.Rhs[i])
							} else if len(y.Rhs) == 1 && i == 0 {
								defs[o] = append(defs[o], y.Rhs[0]) // v, ok := m[k]
							}
						}
					}
				}
			case *ast.ValueSpec:
				for i, nm := range y.Names {
					if i < len(y.Values) {
						defs[inf.Defs[nm]] = append(defs[inf.Defs[nm]], y.Values[i])
					}
				}
			}
			return true
		})
		var fresh func(e ast.Expr, depth int) (bool, string)
		fresh = func(e ast.Expr, depth int) (bool, string) {
			e = core.Unparen(e)
			switch y := e.(type) {
			case *ast.CompositeLit:
				return true, ""
			case *ast.CallExpr:
				if b, ok := core.ObjOf(inf, y.Fun).(*types.Builtin); ok && b.Name() == "make" {
					return true, ""
				}
				if tv, ok := inf.Types[y.Fun]; ok && tv.IsType() && len(y.Args) == 1 {
					return fresh(y.Args[0], depth)
				}
				// a constructor of the module that returns a PathSpec: its own stores are checked where they are
				if f := core.Callee(inf, y); f != nil && c.M.InModule(f.Pkg()) {
					return true, ""
				}
				return false, core.ExprString(e) + " is not an allocation"
			case *ast.IndexExpr:
				if isPathSpec(inf.Types[y.X].Type) {
					return true, "" // an existing child of a tree
				}
			case *ast.Ident:
				if core.IsNil(inf, y) {
					return true, ""
				}
				o := core.ObjOf(inf, y)
				if v, ok := o.(*types.Var); ok {
					if v.Parent() == v.Pkg().Scope() {
						return false, "package-level variable " + core.NameOf(v) + " is shared by every spec"
					}
					if isParamOf(inf, fd, v) {
						return true, ""
					}
					if depth > 4 {
						return false, "assignment chain of " + core.NameOf(v) + " too long"
					}
					if len(defs[o]) == 0 {
						return true, "" // range variable / zero value
					}
					for _, d := range defs[o] {
						if ok, why := fresh(d, depth+1); !ok {
							return false, core.NameOf(v) + " may hold a shared map: " + why
						}
					}
					return true, ""
				}
			}
			return false, core.ExprString(e) + " is not an allocation"
		}
		ast.Inspect(fd.Body, func(x ast.Node) bool {
			as, ok := x.(*ast.AssignStmt)
			if !ok || len(as.Lhs) != len(as.Rhs) {
				return true
			}
			for i, l := range as.Lhs {
				ix, ok := core.Unparen(l).(*ast.IndexExpr)
				if !ok || !isPathSpec(inf.Types[ix.X].Type) {
					continue
				}
				n++
				ok2, why := fresh(as.Rhs[i], 0)
				c.Check(ok2, rel, core.DeclName(fd), fmt.Sprintf("store into a PathSpec #%d is a map of its own", ordinal(fd, as)), as.Pos(), core.ExprString(as.Rhs[i]), why)
			}
			return true
		})
	}
	if n == 0 {
		c.Unknown(rel, "-", "stores into a PathSpec", token.NoPos, "none found")
	}
}

func init() {
	core.Register(&core.Rule{
		ID:    "R11.7",
		Title: "no error is overwritten before it was looked at",
		Text: "In the runtime packages (restlicodec, restli, restli/batchkeyset, d2 and the hand-written envelope types): along every CFG path (loop back edges included), a local or result variable of type error that received the result of a call " +
			"is read (tested, returned, wrapped, passed on) before it is assigned again. An item marshaler or validator whose error is replaced by the outcome of the next item makes `encoding returns an error` depend on which item came last: " +
			"a constraint violation in any but the last element of an array is emitted. Variables captured by function literals are not followed.",
		Props: []string{"C11", "C04", "C08", "C19"},
		Floor: map[string]int{"v2": 80, "root": 80},
		Run:   runR117,
	})
}

func runR117(c *core.Ctx) {
	n := 0
	for rel, p := range c.M.Pkgs {
		switch {
		case rel == "restlicodec", rel == "restli", rel == "restli/batchkeyset", rel == "d2", rel == "protocol", rel == "protocol/batchkeyset", rel == "restlidata",
			strings.HasSuffix(rel, "com/linkedin/restli/common"):
		default:
			continue
		}
		inf := p.TypesInfo
		for _, fd := range c.M.FuncDecls(rel) {
			if fd.Body == nil || strings.HasSuffix(c.M.Fset.File(fd.Pos()).Name(), ".gr.go") {
				continue
			}
			bodies := []struct {
				body *ast.BlockStmt
				name string
			}{{fd.Body, core.DeclName(fd)}}
			for i, fl := range core.AllFuncLits(fd.Body) {
				bodies = append(bodies, struct {
					body *ast.BlockStmt
					name string
				}{fl.Body, fmt.Sprintf("%s$%d", core.DeclName(fd), i+1)})
			}
			for _, b := range bodies {
				// error variables assigned from calls in this body (not inside nested literals), not captured by a nested literal
				captured := map[types.Object]bool{}
				for _, fl := range core.FuncLitsIn(b.body) {
					ast.Inspect(fl, func(x ast.Node) bool {
						if id, ok := x.(*ast.Ident); ok {
							if o := inf.Uses[id]; o != nil {
								captured[o] = true
							}
						}
						return true
					})
				}
				idx := map[types.Object]int{}
				var vars []types.Object
				assignedIn := func(x ast.Node) []types.Object {
					var out []types.Object
					as, ok := x.(*ast.AssignStmt)
					if !ok {
						return nil
					}
					hasCall := false
					for _, r := range as.Rhs {
						if _, ok := core.Unparen(r).(*ast.CallExpr); ok {
							hasCall = true
						}
					}
					if !hasCall {
						return nil
					}
					for _, l := range as.Lhs {
						id, ok := core.Unparen(l).(*ast.Ident)
						if !ok || id.Name == "_" {
							continue
						}
						o := core.ObjOf(inf, id)
						if v, ok := o.(*types.Var); ok && !v.IsField() && core.IsErrorType(v.Type()) && !captured[o] && v.Parent() != v.Pkg().Scope() {
							out = append(out, o)
						}
					}
					return out
				}
				core.WalkNoFuncLit(b.body, func(x ast.Node) bool {
					for _, o := range assignedIn(x) {
						if _, ok := idx[o]; !ok && len(vars) < 6 {
							idx[o] = len(vars)
							vars = append(vars, o)
						}
					}
					return true
				})
				if len(vars) == 0 {
					continue
				}
				n++
				lost := map[token.Pos]string{}
				reads := func(x ast.Node) int {
					mask := 0
					var lhs map[*ast.Ident]bool
					if as, ok := x.(*ast.AssignStmt); ok {
						lhs = map[*ast.Ident]bool{}
						for _, l := range as.Lhs {
							if id, ok := core.Unparen(l).(*ast.Ident); ok {
								lhs[id] = true
							}
						}
					}
					core.WalkNoFuncLit(x, func(y ast.Node) bool {
						if id, ok := y.(*ast.Ident); ok && !lhs[id] {
							if i, ok := idx[inf.Uses[id]]; ok {
								mask |= 1 << i
							}
						}
						return true
					})
					return mask
				}
				core.NewFlow(c.M, inf, b.body).Run(&core.Automaton{
					Node: func(st int, x ast.Node) int {
						st &^= reads(x)
						if r, ok := x.(*ast.ReturnStmt); ok && len(r.Results) == 0 {
							st = 0 // a bare return reads the named results
						}
						if as, ok := x.(*ast.AssignStmt); ok {
							// any assignment to a variable that still holds an unread call result loses it
							for _, l := range as.Lhs {
								if id, ok := core.Unparen(l).(*ast.Ident); ok {
									if i, ok := idx[core.ObjOf(inf, id)]; ok && st&(1<<i) != 0 {
										lost[as.Pos()] = vars[i].Name()
										st &^= 1 << i
									}
								}
							}
							for _, o := range assignedIn(x) {
								st |= 1 << idx[o]
							}
						}
						return st
					},
				})
				var where []string
				for p, v := range lost {
					where = append(where, c.M.Position(p)+" ("+v+")")
				}
				sort.Strings(where)
				c.Check(len(where) == 0, rel, b.name, "error variables are read before they are assigned again", b.body.Pos(), fmt.Sprintf("%d variable(s)", len(vars)),
					"an error still unread is overwritten at "+strings.Join(where, ", ")+": the earlier failure is lost")
			}
		}
	}
	if n == 0 {
		c.Unknown("-", "-", "functions that assign an error from a call", token.NoPos, "none found")
	}
}

func init() {
	core.Register(&core.Rule{
		ID:    "R16.9",
		Title: "a slice loaded from shared storage and appended to is stored back",
		Text: "In the runtime packages: for every local that is loaded from a map entry or a field of a receiver / parameter (`keys := s.byHash[h]`, also in comma-ok form) and later grown with `keys = append(keys, …)`: " +
			"on every path from the append to a return that may be a success, the local is stored back into non-local storage (a map entry, a field, through a pointer) or is itself returned. " +
			"The unchanged tree has no such local: a synthetic positive control is analysed on every run. " +
			"append may or may not reallocate; the stored slice header never sees the new length, so a key added to an existing bucket of a batch key set disappears (its response entry then names a key that `was never requested`).",
		Props: []string{"C16", "C10"},
		Floor: map[string]int{"v2": 2, "root": 2},
		Run:   runR169,
	})
}

func runR169(c *core.Ctx) {
	funcs, cands := 0, 0
	for rel, p := range c.M.Pkgs {
		switch {
		case rel == "restlicodec", rel == "restli", rel == "restli/batchkeyset", rel == "d2", rel == "protocol", rel == "protocol/batchkeyset", rel == "restlidata", rel == "d2/lazymap", rel == "fnv1a",
			strings.HasSuffix(rel, "com/linkedin/restli/common"):
		default:
			continue
		}
		inf := p.TypesInfo
		for _, fd := range c.M.FuncDecls(rel) {
			if fd.Body == nil || strings.HasSuffix(c.M.Fset.File(fd.Pos()).Name(), ".gr.go") {
				continue
			}
			funcs++
			for _, la := range lostAppends(c, inf, fd) {
				cands++
				c.Check(la.lostAt == "", rel, core.DeclName(fd), "the grown slice "+la.name+" is stored back on every success path", la.pos, "",
					"the return at "+la.lostAt+" is reachable after "+la.name+" = append("+la.name+", …) without storing "+la.name+" back where it was loaded from: the appended element is lost")
			}
		}
	}
	c.OK("-", "-", "functions scanned for slices loaded from shared storage and grown", token.NoPos, fmt.Sprintf("%d functions, %d such locals", funcs, cands))
	// the unchanged tree has no such local: a synthetic control must be recognised on every run
	const ctl = `package ctl
type set struct{ byHash map[int][]string }
func (s *set) lost(h int, k string) error {
	keys, exists := s.byHash[h]
	keys = append(keys, k)
	if !exists { s.byHash[h] = keys }
	return nil
}
func (s *set) kept(h int, k string) error {
	keys := s.byHash[h]
	keys = append(keys, k)
	s.byHash[h] = keys
	return nil
}`
	f, err := parser.ParseFile(c.M.Fset, "lost_append_control.go", ctl, 0)
	if err != nil {
		c.Unknown("-", "-", "positive control", token.NoPos, err.Error())
		return
	}
	inf := &types.Info{Types: map[ast.Expr]types.TypeAndValue{}, Defs: map[*ast.Ident]types.Object{}, Uses: map[*ast.Ident]types.Object{}, Selections: map[*ast.SelectorExpr]*types.Selection{}}
	if _, err := (&types.Config{}).Check("ctl", c.M.Fset, []*ast.File{f}, inf); err != nil {
		c.Unknown("-", "-", "positive control", token.NoPos, "control does not type-check: "+err.Error())
		return
	}
	got := map[string]string{}
	for _, d := range f.Decls {
		if fd, ok := d.(*ast.FuncDecl); ok && fd.Body != nil {
			got[fd.Name.Name] = "none"
			for _, la := range lostAppends(c, inf, fd) {
				if la.lostAt != "" {
					got[fd.Name.Name] = "lost"
				} else {
					got[fd.Name.Name] = "kept"
				}
			}
		}
	}
	c.Check(got["lost"] == "lost" && got["kept"] == "kept", "-", "-", "positive control: a conditionally stored-back append is recognised, an unconditional one accepted", token.NoPos,
		fmt.Sprintf("lost=%s kept=%s", got["lost"], got["kept"]), fmt.Sprintf("control verdicts lost=%s kept=%s", got["lost"], got["kept"]))
}

type lostAppend struct {
	name   string
	pos    token.Pos
	lostAt string
}

// lostAppends finds, in fd, the locals loaded from non-local storage and grown with append, and for each the first
// success return reached without the local having been stored back (lostAt == "" when there is none).
func lostAppends(c *core.Ctx, inf *types.Info, fd *ast.FuncDecl) []lostAppend {
	var out []lostAppend
	isLocal := func(o types.Object) bool {
		v, ok := o.(*types.Var)
		return ok && !v.IsField() && v.Parent() != v.Pkg().Scope() && v.Pos() >= fd.Body.Pos() && v.Pos() <= fd.Body.End()
	}
	// non-local storage: an index / selector / deref whose root is not a local declared in the body, or is a
	// pointer / map typed anything (stores through it are visible elsewhere)
	nonLocal := func(e ast.Expr) bool {
		e = core.Unparen(e)
		switch e.(type) {
		case *ast.IndexExpr, *ast.SelectorExpr, *ast.StarExpr:
		default:
			return false
		}
		r := rootIdent(e)
		if r == nil {
			return false
		}
		o := inf.Uses[r]
		if o == nil {
			o = inf.Defs[r]
		}
		if !isLocal(o) {
			return true
		}
		switch o.Type().Underlying().(type) {
		case *types.Pointer, *types.Map:
			return true
		}
		return false
	}
	// locals loaded from non-local storage, of slice type
	loaded := map[types.Object]bool{}
	ast.Inspect(fd.Body, func(x ast.Node) bool {
		if _, ok := x.(*ast.FuncLit); ok {
			return false
		}
		as, ok := x.(*ast.AssignStmt)
		if !ok || len(as.Rhs) == 0 {
			return true
		}
		if o := core.ObjOf(inf, as.Lhs[0]); isLocal(o) && nonLocal(as.Rhs[0]) && (len(as.Lhs) == len(as.Rhs) || len(as.Rhs) == 1) {
			if _, isSlice := o.Type().Underlying().(*types.Slice); isSlice {
				if _, isId := core.Unparen(as.Lhs[0]).(*ast.Ident); isId {
					loaded[o] = true
				}
			}
		}
		return true
	})
	if len(loaded) == 0 {
		return nil
	}
	par := core.Parents(fd)
	sig, _ := inf.Defs[fd.Name].Type().(*types.Signature)
	var objs []types.Object
	for o := range loaded {
		objs = append(objs, o)
	}
	sort.Slice(objs, func(i, j int) bool { return objs[i].Pos() < objs[j].Pos() })
	for _, o := range objs {
		appends := 0
		lostAt := ""
		mentions := func(x ast.Node) bool {
			found := false
			ast.Inspect(x, func(y ast.Node) bool {
				if id, ok := y.(*ast.Ident); ok && inf.Uses[id] == o {
					found = true
				}
				return true
			})
			return found
		}
		core.NewFlow(c.M, inf, fd.Body).Run(core.TrackNil(inf, core.MainErrorVar(inf, fd), &core.Automaton{
			AtEnd: true,
			Node: func(st int, x ast.Node) int {
				if as, ok := x.(*ast.AssignStmt); ok && len(as.Lhs) == len(as.Rhs) {
					for i, l := range as.Lhs {
						if nonLocal(l) && mentions(as.Rhs[i]) {
							st = 0
						}
					}
					for i, l := range as.Lhs {
						if core.ObjOf(inf, l) != o {
							continue
						}
						if _, isId := core.Unparen(l).(*ast.Ident); !isId {
							continue
						}
						if call, ok := core.Unparen(as.Rhs[i]).(*ast.CallExpr); ok {
							if b, ok := core.ObjOf(inf, call.Fun).(*types.Builtin); ok && b.Name() == "append" && len(call.Args) > 1 && core.ObjOf(inf, call.Args[0]) == o {
								appends++
								st = 1
								continue
							}
						}
						st = 0 // reloaded or replaced
					}
				}
				if r, ok := x.(*ast.ReturnStmt); ok && st == 1 {
					returned := false
					for _, e := range r.Results {
						if mentions(e) {
							returned = true
						}
					}
					if !returned && core.ErrorReturn(inf, par, sig, r) != "error" && lostAt == "" {
						lostAt = c.M.Position(r.Pos())
					}
				}
				return st
			},
		}))
		if appends == 0 {
			continue
		}
		out = append(out, lostAppend{o.Name(), o.Pos(), lostAt})
	}
	return out
}

func init() {
	core.Register(&core.Rule{
		ID:    "R17.11",
		Title: "values shared through package-level variables are only written by their construction API",
		Text: "Shared types: the named struct types of the runtime packages of which some package of the module (generated bindings included) holds a package-level variable (T or *T) — restlicodec.RequiredFields is the main one: one instance per record type, " +
			"read by every concurrent decode of that type. In the declaring package, a function that stores into a field of such a type through a pointer (x.f = …, x.f[k] = …, also via append) must be part of the type's construction API: " +
			"it returns T or *T (a constructor, or a builder method that returns its receiver). A method that fills in a derived field on first use (a lazily built index, a cached string) is a write to an object that other goroutines are reading: " +
			"a data race, and until the cache is complete readers see a partial index.",
		Props: []string{"C17", "C06"},
		Floor: map[string]int{"v2": 1, "root": 1},
		Run:   runR1711,
	})
}

func runR1711(c *core.Ctx) {
	// shared types
	shared := map[*types.TypeName][]string{}
	for rel, p := range c.M.Pkgs {
		scope := p.Types.Scope()
		for _, name := range scope.Names() {
			v, ok := scope.Lookup(name).(*types.Var)
			if !ok {
				continue
			}
			t := v.Type()
			if pt, ok := t.(*types.Pointer); ok {
				t = pt.Elem()
			}
			nn, ok := t.(*types.Named)
			if !ok || nn.Obj().Pkg() == nil || !c.M.InModule(nn.Obj().Pkg()) {
				continue
			}
			if _, isStruct := nn.Underlying().(*types.Struct); !isStruct {
				continue
			}
			switch c.M.Rel(nn.Obj().Pkg().Path()) {
			case "restlicodec", "restli", "protocol", "d2", "restli/batchkeyset", "protocol/batchkeyset":
				shared[nn.Origin().Obj()] = append(shared[nn.Origin().Obj()], rel+"."+name)
			}
		}
	}
	var tns []*types.TypeName
	for tn := range shared {
		tns = append(tns, tn)
	}
	sort.Slice(tns, func(i, j int) bool { return tns[i].Name() < tns[j].Name() })
	if len(tns) == 0 {
		c.Unknown("-", "-", "shared types", token.NoPos, "no package-level variable of a runtime struct type found")
		return
	}
	for _, tn := range tns {
		rel := c.M.Rel(tn.Pkg().Path())
		inf := info(c, rel)
		isT := func(t types.Type) bool {
			if pt, ok := t.(*types.Pointer); ok {
				t = pt.Elem()
			}
			nn, ok := t.(*types.Named)
			return ok && nn.Origin().Obj() == tn
		}
		// sync types inside T are their own protection
		var writers []string
		nFuncs := 0
		for _, fd := range c.M.FuncDecls(rel) {
			if fd.Body == nil {
				continue
			}
			nFuncs++
			f, _ := inf.Defs[fd.Name].(*types.Func)
			if f == nil {
				continue
			}
			sig := f.Type().(*types.Signature)
			constructs := false
			for i := 0; i < sig.Results().Len(); i++ {
				if isT(sig.Results().At(i).Type()) {
					constructs = true
				}
			}
			if constructs {
				continue
			}
			var at token.Pos
			field := ""
			ast.Inspect(fd.Body, func(x ast.Node) bool {
				var targets []ast.Expr
				switch y := x.(type) {
				case *ast.AssignStmt:
					targets = y.Lhs
				case *ast.IncDecStmt:
					targets = []ast.Expr{y.X}
				}
				for _, l := range targets {
					// peel index expressions: x.f[k] = … writes x.f's storage
					e := core.Unparen(l)
					for {
						if ix, ok := e.(*ast.IndexExpr); ok {
							e = core.Unparen(ix.X)
							continue
						}
						break
					}
					sel, ok := e.(*ast.SelectorExpr)
					if !ok {
						continue
					}
					fv, ok := core.ObjOf(inf, sel).(*types.Var)
					if !ok || !fv.IsField() {
						continue
					}
					xt := inf.Types[sel.X].Type
					if xt == nil || !isT(xt) {
						continue
					}
					// through a pointer (or an addressable shared value): a local value copy is private
					if _, isPtr := xt.(*types.Pointer); !isPtr {
						if r := rootIdent(sel.X); r != nil {
							if v, ok := inf.Uses[r].(*types.Var); ok && v.Parent() != v.Pkg().Scope() {
								if _, rootPtr := v.Type().(*types.Pointer); !rootPtr {
									continue
								}
							}
						}
					}
					// a freshly built local (x := &T{…} / new(T)) is not shared yet
					if r := rootIdent(sel.X); r != nil {
						if v, ok := inf.Uses[r].(*types.Var); ok && freshLocalOfType(inf, fd, v) {
							continue
						}
					}
					if at == token.NoPos {
						at, field = l.Pos(), core.NameOf(fv)
					}
				}
				return true
			})
			if at != token.NoPos {
				writers = append(writers, fmt.Sprintf("%s writes %s.%s at %s", core.DeclName(fd), core.NameOf(tn), field, c.M.Position(at)))
			}
		}
		sort.Strings(writers)
		vars := shared[tn]
		sort.Strings(vars)
		ex := vars[0]
		if len(vars) > 1 {
			ex += fmt.Sprintf(" and %d more", len(vars)-1)
		}
		c.Check(len(writers) == 0, rel, core.NameOf(tn), "only the construction API writes the fields of the shared type", tn.Pos(), fmt.Sprintf("shared through %s; %d functions scanned", ex, nFuncs),
			"instances are shared through package-level variables ("+ex+") and written outside the construction API: "+strings.Join(writers, "; "))
	}
}

// freshLocalOfType: v is a local of fd whose every assignment is &T{…}, T{…} or new(T).
func freshLocalOfType(inf *types.Info, fd *ast.FuncDecl, v *types.Var) bool {
	if v.Pos() < fd.Body.Pos() || v.Pos() > fd.Body.End() {
		return false
	}
	n, ok := 0, true
	ast.Inspect(fd.Body, func(x ast.Node) bool {
		as, isAs := x.(*ast.AssignStmt)
		if !isAs || len(as.Lhs) != len(as.Rhs) {
			return true
		}
		for i, l := range as.Lhs {
			if id, isId := core.Unparen(l).(*ast.Ident); !isId || core.ObjOf(inf, id) != types.Object(v) {
				continue
			}
			n++
			switch r := core.Unparen(as.Rhs[i]).(type) {
			case *ast.CompositeLit:
			case *ast.UnaryExpr:
				if _, isLit := core.Unparen(r.X).(*ast.CompositeLit); !isLit || r.Op != token.AND {
					ok = false
				}
			case *ast.CallExpr:
				if b, isB := core.ObjOf(inf, r.Fun).(*types.Builtin); !isB || b.Name() != "new" {
					ok = false
				}
			default:
				ok = false
			}
		}
		return true
	})
	return ok && n > 0
}

func init() {
	core.Register(&core.Rule{
		ID:    "R12.10",
		Title: "writing a file changes no table of the generator",
		Text: "Call graph (VTA) from (*CodeFile).Write: no function of the generator packages reachable from it assigns a package-level variable of the module, stores into or deletes from a package-level map, appends to a package-level slice, or calls Store / Delete / LoadOrStore on a package-level sync.Map. " +
			"Files are written in Go map order; a table that one file's emission extends (import names, name registries, memo tables) changes what the files written after it look like, so the same schema yields different bytes from run to run.",
		Props: []string{"C12", "C09"},
		Floor: map[string]int{"v2": 1, "root": 1},
		Run:   runR1210,
	})
}

// pkgLevelWrites lists the stores to package-level variables of the module in body (nested function literals excluded).
func pkgLevelWrites(c *core.Ctx, inf *types.Info, body ast.Node) []string {
	var out []string
	isPkgVar := func(e ast.Expr) *types.Var {
		e = core.Unparen(e)
		for {
			switch x := e.(type) {
			case *ast.IndexExpr:
				e = core.Unparen(x.X)
				continue
			case *ast.SelectorExpr:
				if v, ok := core.ObjOf(inf, x).(*types.Var); ok && !v.IsField() && v.Pkg() != nil && v.Parent() == v.Pkg().Scope() && c.M.InModule(v.Pkg()) {
					return v // pkg.Var
				}
				// a field of a package-level struct value
				e = core.Unparen(x.X)
				continue
			case *ast.StarExpr:
				e = core.Unparen(x.X)
				continue
			}
			break
		}
		if id, ok := e.(*ast.Ident); ok {
			if v, ok := core.ObjOf(inf, id).(*types.Var); ok && !v.IsField() && v.Pkg() != nil && v.Parent() == v.Pkg().Scope() && c.M.InModule(v.Pkg()) {
				return v
			}
		}
		return nil
	}
	core.WalkNoFuncLit(body, func(x ast.Node) bool {
		switch y := x.(type) {
		case *ast.AssignStmt:
			for _, l := range y.Lhs {
				if v := isPkgVar(l); v != nil {
					out = append(out, fmt.Sprintf("%s assigned at %s", core.NameOf(v), c.M.Position(l.Pos())))
				}
			}
		case *ast.IncDecStmt:
			if v := isPkgVar(y.X); v != nil {
				out = append(out, fmt.Sprintf("%s changed at %s", core.NameOf(v), c.M.Position(y.Pos())))
			}
		case *ast.CallExpr:
			if b, ok := core.ObjOf(inf, y.Fun).(*types.Builtin); ok && (b.Name() == "delete" || b.Name() == "clear") && len(y.Args) >= 1 {
				if v := isPkgVar(y.Args[0]); v != nil {
					out = append(out, fmt.Sprintf("%s(%s, …) at %s", b.Name(), core.NameOf(v), c.M.Position(y.Pos())))
				}
			}
			if sel, ok := core.Unparen(y.Fun).(*ast.SelectorExpr); ok {
				if f := core.Callee(inf, y); f != nil && f.Pkg() != nil && f.Pkg().Path() == "sync" {
					switch core.NameOf(f) {
					case "Store", "Delete", "LoadOrStore", "LoadAndDelete", "Swap", "CompareAndSwap", "CompareAndDelete":
						if v := isPkgVar(sel.X); v != nil {
							out = append(out, fmt.Sprintf("%s.%s at %s", core.NameOf(v), core.NameOf(f), c.M.Position(y.Pos())))
						}
					}
				}
			}
		}
		return true
	})
	return out
}

func runR1210(c *core.Ctx) {
	const rel = "codegen/utils"
	write := mustFunc(c, rel, "(*CodeFile).Write")
	cg := c.M.CallGraph()
	start := cg.Nodes[c.M.SSAFunc(write)]
	if start == nil {
		c.Unknown(rel, "(*CodeFile).Write", "call-graph node", write.Pos(), "(*CodeFile).Write is not in the call graph")
		return
	}
	seen := map[int]bool{}
	stack := []*callgraphNode{start}
	var problems []string
	scanned := 0
	for len(stack) > 0 {
		n := stack[len(stack)-1]
		stack = stack[:len(stack)-1]
		if seen[n.ID] {
			continue
		}
		seen[n.ID] = true
		for _, e := range n.Out {
			stack = append(stack, e.Callee)
		}
		fn := n.Func
		if fn == nil || fn.Pkg == nil || fn.Pkg.Pkg == nil || !c.M.InModule(fn.Pkg.Pkg) {
			continue
		}
		r := c.M.Rel(fn.Pkg.Pkg.Path())
		if !(strings.HasPrefix(r, "codegen") || r == "cmd" || r == "") {
			continue
		}
		syn := fn.Syntax()
		if syn == nil {
			continue
		}
		inf := c.M.InfoFor(syn.Pos())
		if inf == nil {
			continue
		}
		var body ast.Node
		switch y := syn.(type) {
		case *ast.FuncDecl:
			body = y.Body
		case *ast.FuncLit:
			body = y.Body
		}
		if body == nil || body.(*ast.BlockStmt) == nil {
			continue
		}
		scanned++
		for _, w := range pkgLevelWrites(c, inf, body) {
			problems = append(problems, fn.String()+": "+w)
		}
	}
	sort.Strings(problems)
	problems = dedupe(problems)
	c.Check(len(problems) == 0, rel, "(*CodeFile).Write", "no function reachable from Write stores into a package-level table", write.Pos(), fmt.Sprintf("%d generator functions reachable", scanned),
		"emission changes generator state that later files read: "+strings.Join(problems, "; "))
}

func init() {
	core.Register(&core.Rule{
		ID:    "R12.11",
		Title: "the manifest is serialised in its final state",
		Text: "In GenerateCode (every function of package cmd that serialises a manifest with json.Marshal / MarshalIndent and writes the bytes): between the serialisation and the write of the bytes, no call receives the manifest (or the slice it was taken from) " +
			"in a position through which the callee may store (mutation summaries over the generator packages: a field / element store whose base derives from a pointer, slice or map parameter, followed through calls to a fixed point). " +
			"LocateCustomTyperefs marks the typerefs that have a hand-written implementation; a manifest serialised before that is written without the marks, and the bindings generated from the checked-in manifest by a dependent project differ from the ones generated here.",
		Props:   []string{"C12"},
		Floor:   map[string]int{"v2": 1},
		Modules: []string{"v2"},
		Run:     runR1211,
	})
}

// mutationSummaries computes, for every function of the given packages, the parameters (index; -1 = receiver) through
// which it may store.
func mutationSummaries(c *core.Ctx, rels []string) map[*types.Func]map[int]bool {
	type fnInfo struct {
		f      *types.Func
		fd     *ast.FuncDecl
		inf    *types.Info
		params map[types.Object]int
	}
	var fns []*fnInfo
	for _, rel := range rels {
		p := c.M.Pkg(rel)
		if p == nil {
			continue
		}
		for _, fd := range c.M.FuncDecls(rel) {
			if fd.Body == nil {
				continue
			}
			f, _ := p.TypesInfo.Defs[fd.Name].(*types.Func)
			if f == nil {
				continue
			}
			fi := &fnInfo{f: f, fd: fd, inf: p.TypesInfo, params: map[types.Object]int{}}
			if fd.Recv != nil && len(fd.Recv.List) == 1 && len(fd.Recv.List[0].Names) == 1 {
				fi.params[p.TypesInfo.Defs[fd.Recv.List[0].Names[0]]] = -1
			}
			k := 0
			for _, fl := range fd.Type.Params.List {
				if len(fl.Names) == 0 {
					k++
				}
				for _, nm := range fl.Names {
					fi.params[p.TypesInfo.Defs[nm]] = k
					k++
				}
			}
			fns = append(fns, fi)
		}
	}
	sum := map[*types.Func]map[int]bool{}
	indirect := func(inf *types.Info, e ast.Expr) bool {
		// does the path from the root to the stored location go through a pointer, slice or map?
		for {
			e = core.Unparen(e)
			var x ast.Expr
			switch y := e.(type) {
			case *ast.SelectorExpr:
				x = y.X
			case *ast.IndexExpr:
				x = y.X
			case *ast.StarExpr:
				return true
			default:
				return false
			}
			if tv, ok := inf.Types[x]; ok && tv.Type != nil {
				switch tv.Type.Underlying().(type) {
				case *types.Pointer, *types.Slice, *types.Map:
					return true
				}
			}
			e = x
		}
	}
	for round := 0; round < 6; round++ {
		changed := false
		for _, fi := range fns {
			inf := fi.inf
			taint := map[types.Object]map[int]bool{}
			for o, i := range fi.params {
				taint[o] = map[int]bool{i: true}
			}
			of := func(e ast.Expr) map[int]bool {
				if r := rootIdent(e); r != nil {
					if o := inf.Uses[r]; o != nil {
						return taint[o]
					}
				}
				return nil
			}
			add := func(o types.Object, t map[int]bool) {
				if o == nil || len(t) == 0 {
					return
				}
				if taint[o] == nil {
					taint[o] = map[int]bool{}
				}
				for i := range t {
					taint[o][i] = true
				}
			}
			mark := func(t map[int]bool) {
				for i := range t {
					if sum[fi.f] == nil {
						sum[fi.f] = map[int]bool{}
					}
					if !sum[fi.f][i] {
						sum[fi.f][i] = true
						changed = true
					}
				}
			}
			for pass := 0; pass < 3; pass++ {
				ast.Inspect(fi.fd.Body, func(x ast.Node) bool {
					switch y := x.(type) {
					case *ast.AssignStmt:
						for i, l := range y.Lhs {
							var rhs ast.Expr
							if len(y.Lhs) == len(y.Rhs) {
								rhs = y.Rhs[i]
							} else if len(y.Rhs) == 1 {
								rhs = y.Rhs[0]
							}
							if id, ok := core.Unparen(l).(*ast.Ident); ok {
								if rhs != nil {
									if call, isCall := core.Unparen(rhs).(*ast.CallExpr); isCall {
										// the result of a call may alias its arguments (getters): taint from every argument
										for _, a := range call.Args {
											add(core.ObjOf(inf, id), of(a))
										}
										if sel, ok := core.Unparen(call.Fun).(*ast.SelectorExpr); ok {
											add(core.ObjOf(inf, id), of(sel.X))
										}
									} else {
										add(core.ObjOf(inf, id), of(rhs))
									}
								}
								continue
							}
							if indirect(inf, l) {
								mark(of(l))
							}
						}
					case *ast.IncDecStmt:
						if _, ok := core.Unparen(y.X).(*ast.Ident); !ok && indirect(inf, y.X) {
							mark(of(y.X))
						}
					case *ast.RangeStmt:
						for _, e := range []ast.Expr{y.Key, y.Value} {
							if e != nil {
								add(core.ObjOf(inf, e), of(y.X))
							}
						}
					case *ast.CallExpr:
						if b, ok := core.ObjOf(inf, y.Fun).(*types.Builtin); ok && (b.Name() == "delete" || b.Name() == "clear") && len(y.Args) > 0 {
							mark(of(y.Args[0]))
						}
						g := core.Callee(inf, y)
						if g == nil {
							return true
						}
						gs := sum[g.Origin()]
						if gs == nil {
							return true
						}
						for i, a := range y.Args {
							if gs[i] {
								mark(of(a))
							}
						}
						if gs[-1] {
							if sel, ok := core.Unparen(y.Fun).(*ast.SelectorExpr); ok {
								mark(of(sel.X))
							}
						}
					}
					return true
				})
			}
		}
		if !changed {
			break
		}
	}
	return sum
}

func runR1211(c *core.Ctx) {
	const rel = "cmd"
	inf := info(c, rel)
	sum := mutationSummaries(c, []string{"cmd", "codegen/utils", "codegen/types", "codegen/resources"})
	n := 0
	for _, fd := range c.M.FuncDecls(rel) {
		if fd.Body == nil {
			continue
		}
		// json.Marshal*(M) assigned to a local B, later written
		var marshal *ast.CallExpr
		var bytesObj types.Object
		ast.Inspect(fd.Body, func(x ast.Node) bool {
			as, ok := x.(*ast.AssignStmt)
			if !ok || len(as.Rhs) != 1 {
				return true
			}
			call, ok := core.Unparen(as.Rhs[0]).(*ast.CallExpr)
			if !ok {
				return true
			}
			f := core.Callee(inf, call)
			if f == nil || f.Pkg() == nil || f.Pkg().Path() != "encoding/json" || !strings.HasPrefix(core.NameOf(f), "Marshal") || len(call.Args) == 0 {
				return true
			}
			if t := inf.Types[call.Args[0]].Type; t != nil {
				if nn := namedOf(t); nn != nil && c.M.InModule(nn.Obj().Pkg()) {
					marshal, bytesObj = call, core.ObjOf(inf, as.Lhs[0])
				}
			}
			return true
		})
		if marshal == nil {
			continue
		}
		mRoot := rootIdent(marshal.Args[0])
		if mRoot == nil {
			continue
		}
		aliases := map[types.Object]bool{inf.Uses[mRoot]: true}
		// what the manifest variable was loaded from
		ast.Inspect(fd.Body, func(x ast.Node) bool {
			if as, ok := x.(*ast.AssignStmt); ok && len(as.Lhs) == len(as.Rhs) {
				for i, l := range as.Lhs {
					if aliases[core.ObjOf(inf, l)] {
						if r := rootIdent(as.Rhs[i]); r != nil && inf.Uses[r] != nil {
							aliases[inf.Uses[r]] = true
						}
					}
				}
			}
			return true
		})
		n++
		bad := ""
		core.NewFlow(c.M, inf, fd.Body).Run(&core.Automaton{
			Node: func(st int, x ast.Node) int {
				for _, call := range core.CallsIn(x) {
					if call == marshal {
						st = 1
						continue
					}
					if st != 1 {
						continue
					}
					// the bytes are written: what happens to the manifest afterwards no longer matters for the file
					for _, a := range call.Args {
						if bytesObj != nil && core.ObjOf(inf, a) == bytesObj {
							st = 2
						}
					}
					if st != 1 {
						continue
					}
					g := core.Callee(inf, call)
					if g == nil {
						continue
					}
					gs := sum[g.Origin()]
					hit := false
					for i, a := range call.Args {
						if r := rootIdent(a); r != nil && aliases[inf.Uses[r]] && gs[i] {
							hit = true
						}
					}
					if sel, ok := core.Unparen(call.Fun).(*ast.SelectorExpr); ok && gs[-1] {
						if r := rootIdent(sel.X); r != nil && aliases[inf.Uses[r]] {
							hit = true
						}
					}
					if hit && bad == "" {
						bad = core.ExprString(call.Fun) + " at " + c.M.Position(call.Pos())
					}
				}
				return st
			},
		})
		c.Check(bad == "", rel, core.DeclName(fd), "nothing changes the manifest between its serialisation and the write", marshal.Pos(), "",
			bad+" may store through the manifest after it was serialised: the written manifest lacks what that call records")
	}
	if n == 0 {
		c.Unknown(rel, "-", "a function that serialises a manifest", token.NoPos, "none found")
	}
}

func init() {
	core.Register(&core.Rule{
		ID: "R13.5", Generated: true, GeneratedRoot: true,
		Title: "a field that is present in the document is never left nil",
		Text: "In every generated field decoder (a case clause of the switch over the field name): an optional or defaulted field (pointer-typed) is assigned new(T) / &v before it is filled, " +
			"or the result of a function none of whose returns pairs a nil pointer with an error that may be nil (the callee's returns are read in the runtime's source). " +
			"A present-but-empty array or map that decodes to a nil pointer is indistinguishable from an absent field: the default is then applied over data that was in the document.",
		Props: []string{"C13", "C06"},
		Floor: map[string]int{"corpus": 10},
		Run:   runR135,
	})
}

func runR135(c *core.Ctx) {
	if c.Corpus.Failure != "" {
		return
	}
	findDecl := func(f *types.Func) (*ast.FuncDecl, *types.Info) {
		if f == nil || f.Pkg() == nil {
			return nil, nil
		}
		p := c.M.AllByPath[f.Pkg().Path()]
		if p == nil {
			return nil, nil
		}
		for _, file := range p.Syntax {
			for _, d := range file.Decls {
				if fd, ok := d.(*ast.FuncDecl); ok && p.TypesInfo.Defs[fd.Name] == types.Object(f.Origin()) {
					return fd, p.TypesInfo
				}
			}
		}
		return nil, nil
	}
	// mayReturnNilNil: "" when no return of f pairs a nil first result with a possibly-nil error
	verdict := map[*types.Func]string{}
	var mayReturnNilNil func(f *types.Func, depth int) string
	mayReturnNilNil = func(f *types.Func, depth int) string {
		f = f.Origin()
		if v, ok := verdict[f]; ok {
			return v
		}
		verdict[f] = ""
		fd, inf := findDecl(f)
		if fd == nil || fd.Body == nil {
			verdict[f] = "?the source of " + f.FullName() + " is not loaded"
			return verdict[f]
		}
		sig := f.Type().(*types.Signature)
		par := core.Parents(fd)
		res := ""
		for _, r := range core.ReturnsIn(fd.Body) {
			if len(r.Results) != sig.Results().Len() || len(r.Results) == 0 {
				if len(r.Results) == 1 && depth < 2 {
					if call, ok := core.Unparen(r.Results[0]).(*ast.CallExpr); ok {
						if g := core.Callee(inf, call); g != nil {
							if w := mayReturnNilNil(g, depth+1); w != "" {
								res = w
							}
							continue
						}
					}
				}
				res = "?" + core.NameOf(f) + " has a return that is not understood"
				continue
			}
			first := core.Unparen(r.Results[0])
			nilFirst := core.IsNil(inf, first)
			if !nilFirst {
				switch y := first.(type) {
				case *ast.UnaryExpr:
					if y.Op == token.AND {
						continue
					}
				case *ast.CallExpr:
					if b, ok := core.ObjOf(inf, y.Fun).(*types.Builtin); ok && b.Name() == "new" {
						continue
					}
				case *ast.Ident:
					// a named result / local: fine when it is assigned an address or new() everywhere
					if v, ok := core.ObjOf(inf, y).(*types.Var); ok && freshLocalOfType(inf, fd, v) {
						continue
					}
				}
				if core.ErrorReturn(inf, par, sig, r) == "error" {
					continue
				}
				res = "?" + core.NameOf(f) + " returns " + core.ExprString(first) + ", which is not known to be non-nil"
				continue
			}
			if core.ErrorReturn(inf, par, sig, r) != "error" {
				res = core.NameOf(f) + " can return a nil pointer together with a nil error (" + c.M.Position(r.Pos()) + ")"
				break
			}
		}
		verdict[f] = res
		return res
	}
	for _, g := range genModel(c) {
		if g.Kind != "record" && g.Kind != "" {
			// only struct types have field decoders
		}
		inf := g.inf()
		var names []string
		for nm := range g.Methods {
			names = append(names, nm)
		}
		sort.Strings(names)
		for _, nm := range names {
			fd := g.Methods[nm]
			if fd.Body == nil || fd.Recv == nil || len(fd.Recv.List) != 1 || len(fd.Recv.List[0].Names) != 1 {
				continue
			}
			recv := inf.Defs[fd.Recv.List[0].Names[0]]
			ast.Inspect(fd.Body, func(x ast.Node) bool {
				cc, ok := x.(*ast.CaseClause)
				if !ok || len(cc.List) != 1 {
					return true
				}
				cv := core.ConstOf(inf, cc.List[0])
				if cv == nil || cv.Kind() != constant.String {
					return true
				}
				// assignments to pointer-typed fields of the receiver in this clause, in order
				type asg struct {
					field *types.Var
					rhs   ast.Expr
					pos   token.Pos
				}
				var first = map[*types.Var]*asg{}
				var order []*types.Var
				for _, st := range cc.Body {
					as, ok := st.(*ast.AssignStmt)
					if !ok {
						continue
					}
					for i, l := range as.Lhs {
						sel, ok := core.Unparen(l).(*ast.SelectorExpr)
						if !ok || core.ObjOf(inf, sel.X) != recv {
							continue
						}
						fv, ok := core.ObjOf(inf, sel).(*types.Var)
						if !ok || !fv.IsField() {
							continue
						}
						if _, isPtr := fv.Type().(*types.Pointer); !isPtr {
							continue
						}
						var rhs ast.Expr
						if len(as.Lhs) == len(as.Rhs) {
							rhs = as.Rhs[i]
						} else if len(as.Rhs) == 1 {
							rhs = as.Rhs[0]
						}
						if first[fv] == nil {
							first[fv] = &asg{fv, rhs, as.Pos()}
							order = append(order, fv)
						}
					}
				}
				for _, fv := range order {
					a := first[fv]
					construct := fmt.Sprintf("%s: case %s assigns a non-nil %s", nm, cv.ExactString(), core.NameOf(fv))
					switch y := core.Unparen(a.rhs).(type) {
					case *ast.UnaryExpr:
						c.Check(y.Op == token.AND, g.Rel, g.Name, construct, a.pos, "address", "not an address")
					case *ast.CallExpr:
						if b, ok := core.ObjOf(inf, y.Fun).(*types.Builtin); ok && b.Name() == "new" {
							c.OK(g.Rel, g.Name, construct, a.pos, "new")
							continue
						}
						f := core.Callee(inf, y)
						if f == nil {
							c.Unknown(g.Rel, g.Name, construct, a.pos, "assigned from a dynamic call")
							continue
						}
						w := mayReturnNilNil(f, 0)
						switch {
						case w == "":
							c.OK(g.Rel, g.Name, construct, a.pos, core.NameOf(f)+" never returns (nil, nil)")
						case strings.HasPrefix(w, "?"):
							c.Unknown(g.Rel, g.Name, construct, a.pos, w[1:])
						default:
							c.Bad(g.Rel, g.Name, construct, a.pos, w+": a field that is present (e.g. as an empty array) is left nil and the default is applied over it")
						}
					default:
						// copied from elsewhere: not a decoding assignment
					}
				}
				return true
			})
		}
	}
}

func init() {
	// what the fifth seeding round added to each property's claim (printed into the evidence files)
	for id, text := range map[string]string{
		"C01": "Round 5: no net/url form parser in the codec either (R02.6 registered here).",
		"C02": "Round 5: an envelope marshaler writes, on every success path, the fields its own decoder requires (R02.7); the resolver's URL is never written through (R15.6 registered here); response bodies are read whole (R08.8).",
		"C03": "Round 5: the scanning loop of ror2Reader.Skip equals the grammar's decision table (R03.4); the JSON reader rejects trailing input (R04.10); R02.7.",
		"C04": "Round 5: the JSON reader samples IsStart() before any token is fetched and success returns of the outermost value pass Consumed() (R04.10); R03.4; no error variable is overwritten unread (R11.7); pooled objects completely reset (R17.9 registered here).",
		"C06": "Round 5: R03.4 (Skip decision table); R02.7; pooled objects completely reset, field by field (R17.9 registered here); shared RequiredFields are written only by their construction API (R17.11); a present optional field is never left nil (R13.5).",
		"C07": "Round 5: every node of an exclusion spec is a map of its own (R07.11); pooled readers completely reset (R17.9 registered here).",
		"C08": "Round 5: every path through the *ErrorResponse branch of ServeHTTP assigns the status (R08.9); error bodies are read whole (R08.8); R11.7.",
		"C10": "Round 5: generated Equals never answers false before the identity test has failed (R10.9, [G]); a slice loaded from shared storage and grown is stored back (R16.9).",
		"C11": "Round 5: the enum decoder assigns the table lookup on every success path (R11.3, CFG); no error is overwritten before it was read, loop back edges included (R11.7); R07.11; R17.9.",
		"C12": "Round 5: nothing reachable from (*CodeFile).Write stores into a package-level table (R12.10, VTA call graph); the manifest is serialised after the last call that may store through it (R12.11, mutation summaries); R20.6.",
		"C13": "Round 5: a present optional or defaulted field is assigned new(T) / &v or the result of a function that never returns (nil, nil) (R13.5, [G], callee read in the runtime's source).",
		"C14": "Round 5: pooled objects completely reset (R17.9 registered here).",
		"C15": "Round 5: path.Dir / path.Base count as normalising calls (R15.2); pooled objects completely reset (R17.9 registered here).",
		"C16": "Round 5: a bucket loaded from the key set and grown with append is stored back on every success path (R16.9); R02.7; R17.9.",
		"C17": "Round 5: values shared through package-level variables are written only by their construction API (R17.11); reset coverage of pooled objects is computed field by field across Get and Put sites (R17.9).",
		"C18": "Round 5: a Store that funnels through LoadOrStore reaches the raw sync.Map.Store only where its flag is known lowered (R18.7).",
		"C19": "Round 5: Uri.UnmarshalJSON stores every entry of every decoded map (R19.4).",
		"C20": "Round 5: every file write is reached only through MkdirAll, and the cleaner removes the manifest before it lists the directory (R20.6).",
	} {
		if p := core.Properties[id]; p != nil {
			p.Explanation += "  " + text
		}
	}
}
