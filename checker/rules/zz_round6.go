package rules

import (
	"fmt"
	"go/ast"
	"go/constant"
	"go/token"
	"go/types"
	"sort"
	"strings"

	"golang.org/x/tools/go/cfg"
	"golang.org/x/tools/go/ssa"

	"verif/checker/core"
)

type cfgBlock = cfg.Block

const (
	cfgKindRangeLoop = cfg.KindRangeLoop
	cfgKindForLoop   = cfg.KindForLoop
	cfgKindRangeDone = cfg.KindRangeDone
	cfgKindForDone   = cfg.KindForDone
)

// Rules added after the sixth seeding round.

func init() {
	core.Register(&core.Rule{
		ID:    "R03.5",
		Title: "JSON object keys are unescaped before they are compared",
		Text: "Every call of jlexer.Lexer.UnsafeFieldName in the module passes the constant false for skipUnescape: a key may be spelled with any legal JSON escape (`\"tot\\u0061l\"`), " +
			"and the field switch of every decoder compares the unescaped name. With true, an escaped spelling of a known field is skipped as unknown (the default is then applied over data that was sent), and map keys keep their escapes.",
		Props: []string{"C03", "C06", "C13", "C01", "C16"},
		Floor: map[string]int{"v2": 1, "root": 1},
		Run:   runR035,
	})
	core.Register(&core.Rule{
		ID:    "R01.10",
		Title: "the JSON reader accepts the number forms the JSON writer emits",
		Text: "The JSON writers emit NaN and the infinities as the three reserved strings (R03.2). Every float read method of the JSON reader (ReadFloat32 / ReadFloat64, directly or by calling the other) therefore goes through jlexer's JsonNumber(), " +
			"which accepts a number token or a string token, and never through Lexer.Float32 / Float64 / Float32Str / Float64Str, which reject the string form. One obligation per float read method.",
		Props: []string{"C01", "C03"},
		Floor: map[string]int{"v2": 2, "root": 2},
		Run:   runR0110,
	})
	core.Register(&core.Rule{
		ID:    "R01.11",
		Title: "easyjson buffers are consumed through their API",
		Text: "No selection of the field Buf of easyjson's buffer.Buffer anywhere in the module: Buf is only the chunk being filled, earlier chunks live in an unexported list, so copying Buf drops everything but the tail once a value outgrows the first chunk (128 bytes). " +
			"Buffers are read with DumpTo / BuildBytes / ReadCloser / Size. One obligation per function that touches a jwriter.Writer's Buffer.",
		Props: []string{"C01", "C03"},
		Floor: map[string]int{"v2": 2, "root": 1},
		Run:   runR0111,
	})
	core.Register(&core.Rule{
		ID:    "R02.8",
		Title: "the server routes the path as it was received",
		Text: "In rootNode.ServeHTTP and pathNode.receive no normalising or re-decoding call is applied on the way from the request URL to the routed segments: no path / filepath Clean, Join, Dir, Base, Split; no strings.Fields / FieldsFunc (they drop empty segments); " +
			"no strings.Trim / TrimRight / TrimSuffix with a cut set containing '/'; no url.PathUnescape / QueryUnescape. The segments are the '/'-separated pieces of the encoded path: `.` and `..` are legal keys, an empty segment is an (empty) key.",
		Props: []string{"C02", "C05", "C15"},
		Floor: map[string]int{"v2": 2, "root": 2},
		Run:   runR028,
	})
	core.Register(&core.Rule{
		ID:    "R14.6",
		Title: "a tunnelled request always names the verb it stands for",
		Text:  "In EncodeTunnelledQuery every path to a return has set the method-override header from the verb parameter: the server recognises a tunnelled request by that header alone, so a tunnelled POST without it arrives as a plain POST with a multipart body and an empty query.",
		Props: []string{"C14", "C02", "C15"},
		Floor: map[string]int{"v2": 1, "root": 1},
		Run:   runR146,
	})
}

func runR035(c *core.Ctx) {
	n := 0
	for _, p := range c.M.Roots {
		inf := p.TypesInfo
		rel := c.M.Rel(p.PkgPath)
		for _, fd := range c.M.FuncDecls(rel) {
			if fd.Body == nil {
				continue
			}
			ast.Inspect(fd.Body, func(x ast.Node) bool {
				call, ok := x.(*ast.CallExpr)
				if !ok {
					return true
				}
				f := core.Callee(inf, call)
				if f == nil || f.Pkg() == nil || !strings.HasSuffix(f.Pkg().Path(), "easyjson/jlexer") || (f.Name() != "UnsafeFieldName" && f.Name() != "unsafeString") || len(call.Args) != 1 {
					return true
				}
				n++
				cv := core.ConstOf(inf, call.Args[0])
				c.Check(cv != nil && cv.Kind() == constant.Bool && !constant.BoolVal(cv), rel, core.DeclName(fd), fmt.Sprintf("UnsafeFieldName #%d unescapes the key", ordinal(fd, call)), call.Pos(), "",
					"UnsafeFieldName("+core.ExprString(call.Args[0])+") does not (provably) unescape: an escaped spelling of a field name no longer matches its case")
				return true
			})
		}
	}
	if n == 0 {
		c.Unknown("-", "-", "calls of UnsafeFieldName", token.NoPos, "none found")
	}
}

func runR0110(c *core.Ctx) {
	const rel = "restlicodec"
	inf := info(c, rel)
	isLexer := func(f *types.Func, names ...string) bool {
		if f == nil || f.Pkg() == nil || !strings.HasSuffix(f.Pkg().Path(), "easyjson/jlexer") {
			return false
		}
		for _, n := range names {
			if f.Name() == n {
				return true
			}
		}
		return false
	}
	type verdict struct{ number, forbidden bool }
	decl := map[string]*ast.FuncDecl{}
	for _, fd := range c.M.FuncDecls(rel) {
		if fd.Body != nil && fd.Recv != nil && strings.Contains(core.DeclName(fd), "jsonReader") && (fd.Name.Name == "ReadFloat32" || fd.Name.Name == "ReadFloat64") {
			decl[fd.Name.Name] = fd
		}
	}
	var eval func(fd *ast.FuncDecl, depth int) verdict
	eval = func(fd *ast.FuncDecl, depth int) verdict {
		var v verdict
		ast.Inspect(fd.Body, func(x ast.Node) bool {
			call, ok := x.(*ast.CallExpr)
			if !ok {
				return true
			}
			f := core.Callee(inf, call)
			switch {
			case isLexer(f, "JsonNumber"):
				v.number = true
			case isLexer(f, "Float32", "Float64", "Float32Str", "Float64Str"):
				v.forbidden = true
			case f != nil && depth < 2 && decl[core.NameOf(f)] != nil && decl[core.NameOf(f)] != fd && core.RecvNamed(f) != nil && core.NameOf(core.RecvNamed(f).Obj()) == "jsonReader":
				w := eval(decl[core.NameOf(f)], depth+1)
				v.number = v.number || w.number
				v.forbidden = v.forbidden || w.forbidden
			}
			return true
		})
		return v
	}
	for _, name := range []string{"ReadFloat32", "ReadFloat64"} {
		fd := decl[name]
		if fd == nil {
			c.Unknown(rel, "(*jsonReader)."+name, "float read method", token.NoPos, "not found")
			continue
		}
		v := eval(fd, 0)
		c.Check(v.number && !v.forbidden, rel, core.DeclName(fd), "floats are read through JsonNumber()", fd.Pos(), "",
			fmt.Sprintf("JsonNumber reached: %v, number-only lexer method reached: %v — the strings \"NaN\" / \"Infinity\" / \"-Infinity\" that the writer emits are rejected", v.number, v.forbidden))
	}
}

func runR0111(c *core.Ctx) {
	n := 0
	for _, p := range c.M.Roots {
		inf := p.TypesInfo
		rel := c.M.Rel(p.PkgPath)
		for _, fd := range c.M.FuncDecls(rel) {
			if fd.Body == nil {
				continue
			}
			touches, bad := false, ""
			ast.Inspect(fd.Body, func(x ast.Node) bool {
				sel, ok := x.(*ast.SelectorExpr)
				if !ok {
					return true
				}
				fv, ok := core.ObjOf(inf, sel).(*types.Var)
				if !ok || !fv.IsField() || fv.Pkg() == nil || !strings.Contains(fv.Pkg().Path(), "mailru/easyjson") {
					return true
				}
				if fv.Name() == "Buffer" {
					touches = true
				}
				if fv.Name() == "Buf" && strings.HasSuffix(fv.Pkg().Path(), "easyjson/buffer") {
					touches = true
					bad = c.M.Position(sel.Pos())
				}
				return true
			})
			if touches {
				n++
				c.Check(bad == "", rel, core.DeclName(fd), "the easyjson buffer is read through its API", fd.Pos(), "", "Buffer.Buf is selected at "+bad+": it is only the last chunk of the buffer")
			}
		}
	}
	c.OK("-", "-", "functions scanned for selections of easyjson's Buffer.Buf", token.NoPos, fmt.Sprintf("%d functions touch a jwriter buffer", n))
}

func runR028(c *core.Ctx) {
	const rel = "restli"
	inf := info(c, rel)
	forbidden := func(call *ast.CallExpr) string {
		f := core.Callee(inf, call)
		if f == nil || f.Pkg() == nil {
			return ""
		}
		switch f.Pkg().Path() {
		case "path", "path/filepath":
			switch f.Name() {
			case "Clean", "Join", "Dir", "Base", "Split", "Abs", "Rel":
				return f.Pkg().Name() + "." + f.Name() + " normalises slashes and dot segments"
			}
		case "net/url":
			switch f.Name() {
			case "PathUnescape", "QueryUnescape", "JoinPath":
				return "url." + f.Name() + " decodes what routing must see encoded"
			}
		case "strings":
			switch f.Name() {
			case "Fields", "FieldsFunc":
				return "strings." + f.Name() + " drops empty segments"
			case "Trim", "TrimRight", "TrimLeft", "TrimSuffix":
				if len(call.Args) == 2 {
					if cv := core.ConstOf(inf, call.Args[1]); cv != nil && cv.Kind() == constant.String && strings.Contains(constant.StringVal(cv), "/") {
						return "strings." + f.Name() + " with a cut set containing '/' drops empty segments"
					}
				}
			}
		}
		return ""
	}
	for _, name := range []string{"(*rootNode).ServeHTTP", "(*pathNode).receive"} {
		_, fd := mustDecl(c, rel, name)
		var bad []string
		ast.Inspect(fd.Body, func(x ast.Node) bool {
			if call, ok := x.(*ast.CallExpr); ok {
				if why := forbidden(call); why != "" {
					bad = append(bad, why+" ("+c.M.Position(call.Pos())+")")
				}
			}
			return true
		})
		c.Check(len(bad) == 0, rel, name, "no normalising call between the request URL and the routed segments", fd.Pos(), "", strings.Join(bad, "; "))
	}
}

func runR146(c *core.Ctx) {
	const rel = "restli"
	inf := info(c, rel)
	_, fd := mustDecl(c, rel, "EncodeTunnelledQuery")
	hdr := mustObj(c, rel, "MethodOverrideHeader")
	var verb types.Object
	if fd.Type.Params != nil && len(fd.Type.Params.List) > 0 && len(fd.Type.Params.List[0].Names) > 0 {
		verb = inf.Defs[fd.Type.Params.List[0].Names[0]]
	}
	sets := func(x ast.Node) bool {
		for _, call := range core.CallsIn(x) {
			f := core.Callee(inf, call)
			if f != nil && (core.IsMethod(f, "net/http", "Header", "Add") || core.IsMethod(f, "net/http", "Header", "Set")) && len(call.Args) == 2 &&
				core.ObjOf(inf, call.Args[0]) == hdr && core.ObjOf(inf, call.Args[1]) == verb && verb != nil {
				return true
			}
		}
		// headers[MethodOverrideHeader] = []string{verb}
		if as, ok := x.(*ast.AssignStmt); ok {
			for _, l := range as.Lhs {
				if ix, ok := core.Unparen(l).(*ast.IndexExpr); ok && core.ObjOf(inf, ix.Index) == hdr {
					return true
				}
			}
		}
		return false
	}
	// a composite literal http.Header{MethodOverrideHeader: {verb}} at the start counts as well
	early := reachWithout(c, inf, fd.Body, nil, func(x ast.Node) bool {
		if sets(x) {
			return true
		}
		found := false
		ast.Inspect(x, func(y ast.Node) bool {
			if kv, ok := y.(*ast.KeyValueExpr); ok && core.ObjOf(inf, kv.Key) == hdr {
				found = true
			}
			return true
		})
		return found
	}, func(x ast.Node) bool {
		_, ok := x.(*ast.ReturnStmt)
		return ok
	})
	where := ""
	if len(early) > 0 {
		where = c.M.Position(early[0].Pos())
	}
	c.Check(len(early) == 0, rel, "EncodeTunnelledQuery", "the override header is set from the verb on every path", fd.Pos(), "",
		"the return at "+where+" is reachable without "+hdr.Name()+" having been set to the verb: the server cannot tell this request from a plain POST")
}

var _ = sort.Strings

func init() {
	core.Register(&core.Rule{
		ID:    "R19.5",
		Title: "a snapshot copy shares no mutable storage with its original",
		Text: "In serviceUris.copy every field of the snapshot type that is a map, a slice or a pointer to a module struct is given a fresh allocation in the copy (make, a composite literal, append to nil / to an empty literal, a copying call) — never the original's value as is. " +
			"A slice copied by header shares its backing array: a delete or an append-in-place on the new snapshot rewrites what earlier snapshots still iterate over.",
		Props: []string{"C19", "C17"},
		Floor: map[string]int{"v2": 1, "root": 1},
		Run:   runR195,
	})
	core.Register(&core.Rule{
		ID:    "R18.8",
		Title: "no value that contains a sync primitive is copied",
		Text: "In the module no function has a value receiver, a value parameter or a value result whose type contains (by value) a sync.WaitGroup, Mutex, RWMutex, Once, Cond, Map or Pool, and no struct literal / assignment copies such a value out of a pointer: " +
			"a method with a value receiver waits on, or unlocks, a private copy — `func (v inFlightValue) get() { v.wg.Wait() }` blocks for ever although the owner's Done() ran. One obligation per type that contains a sync primitive.",
		Props: []string{"C18", "C17"},
		Floor: map[string]int{"v2": 2, "root": 2},
		Run:   runR188,
	})
	core.Register(&core.Rule{
		ID:    "R16.10",
		Title: "response keys are looked up in their decoded form only",
		Text: "In every LocateOriginalKeyFromReader of the batch key sets each lookup in the set's key table (an index expression on the originalKeys field, or a call of LocateOriginalKey) uses a value that derives from the result of the key decoder " +
			"(restlicodec.UnmarshalRestLi / the unmarshaler), never text taken from the reader as it stands: an encoded key can be literally equal to another requested key (`a%3Ab` encodes `a:b` and is itself a legal key).",
		Props: []string{"C16"},
		Floor: map[string]int{"v2": 2, "root": 2},
		Run:   runR1610,
	})
	core.Register(&core.Rule{
		ID:    "R16.11",
		Title: "the batch helper returns the decoder's verdict itself",
		Text: "doBatchQuery calls UnmarshalWithKeyLocator in its own body and returns its error: it is not routed through DoAndUnmarshal (whose lenient mode drops a MissingRequiredFieldsError) or any other callback-taking wrapper. " +
			"The key locator raises exactly that error type for an entry whose key cannot be resolved; dropped, the response is silently truncated at that entry.",
		Props: []string{"C16", "C08"},
		Floor: map[string]int{"v2": 1, "root": 1},
		Run:   runR1611,
	})
	core.Register(&core.Rule{
		ID:    "R20.7",
		Title: "a file with the generator's suffix is always removed",
		Text: "In the cleaner, on every path on which an entry is known not to be a directory and to carry the generated-file suffix (the HasSuffix fact), the next iteration of the loop is reached only through os.Remove of that entry (or the function returns): " +
			"no other condition (permissions, age, content) spares an owned file, otherwise stale bindings survive regeneration and their directories are never removed.",
		Props: []string{"C20", "C12"},
		Floor: map[string]int{"v2": 1, "root": 1},
		Run:   runR207,
	})
	core.Register(&core.Rule{
		ID:    "R12.12",
		Title: "a rejected registration leaves no trace",
		Text: "In typeRegistry.Register every return of a non-nil error is reached before any store into the registry (its maps, the import-name table): dependency manifests re-register shared types and the error is ignored by design, " +
			"so whatever a failed Register left behind (an entry in the package-root index) makes the generator emit files for types another manifest owns.",
		Props:   []string{"C12"},
		Modules: []string{"v2"},
		Floor:   map[string]int{"v2": 1},
		Run:     runR1212,
	})
	core.Register(&core.Rule{
		ID:    "R12.13",
		Title: "closures kept beyond their iteration do not capture the loop variable (go < 1.22)",
		Text: "In a module whose go directive is below 1.22 a `for` / `range` variable is one variable for the whole loop. A function literal inside the loop that mentions it and is kept (appended to a slice, assigned to a variable declared outside the loop, stored in a field or map, deferred, started with go) " +
			"rather than called on the spot sees the last iteration's value when it finally runs. The generator collects emission steps in such slices; the steps then all emit the last field.",
		Props: []string{"C12", "C13", "C17"},
		Floor: map[string]int{"v2": 1, "root": 1},
		Run:   runR1213,
	})
}

func runR195(c *core.Ctx) {
	const rel = "d2"
	inf := info(c, rel)
	f, fd := mustDecl(c, rel, "(*serviceUris).copy")
	recv := recvObj(inf, fd)
	nn := core.RecvNamed(f)
	st, _ := nn.Underlying().(*types.Struct)
	if st == nil {
		c.Unknown(rel, "(*serviceUris).copy", "snapshot type", fd.Pos(), "receiver is not a struct")
		return
	}
	// values given to the fields of the new snapshot: composite literal entries and field assignments on a fresh local
	vals := map[string][]ast.Expr{}
	ast.Inspect(fd.Body, func(x ast.Node) bool {
		switch y := x.(type) {
		case *ast.CompositeLit:
			if t := namedOf(inf.Types[y].Type); t != nil && t.Origin().Obj() == nn.Origin().Obj() {
				for _, el := range y.Elts {
					if kv, ok := el.(*ast.KeyValueExpr); ok {
						if fv, ok := core.ObjOf(inf, kv.Key).(*types.Var); ok {
							vals[core.NameOf(fv)] = append(vals[core.NameOf(fv)], kv.Value)
						}
					}
				}
			}
		case *ast.AssignStmt:
			if len(y.Lhs) == len(y.Rhs) {
				for i, l := range y.Lhs {
					if sel, ok := core.Unparen(l).(*ast.SelectorExpr); ok {
						if fv, ok := core.ObjOf(inf, sel).(*types.Var); ok && fv.IsField() && core.ObjOf(inf, sel.X) != recv {
							if t := namedOf(inf.Types[sel.X].Type); t != nil && t.Origin().Obj() == nn.Origin().Obj() {
								vals[core.NameOf(fv)] = append(vals[core.NameOf(fv)], y.Rhs[i])
							}
						}
					}
				}
			}
		}
		return true
	})
	var fresh func(e ast.Expr) bool
	depth := 0
	fresh = func(e ast.Expr) bool {
		switch y := core.Unparen(e).(type) {
		case *ast.CompositeLit:
			return true
		case *ast.UnaryExpr:
			_, isLit := core.Unparen(y.X).(*ast.CompositeLit)
			return y.Op == token.AND && isLit
		case *ast.Ident:
			if core.IsNil(inf, y) {
				return true
			}
			// a local of this function that only ever holds fresh values (`m := make(…)`, filled, then put into the copy)
			if v, ok := core.ObjOf(inf, y).(*types.Var); ok && v != recv && bodyLocal(inf, fd, v) && depth < 3 {
				defs, all := 0, true
				depth++
				ast.Inspect(fd.Body, func(z ast.Node) bool {
					if as, ok := z.(*ast.AssignStmt); ok {
						for i, l := range as.Lhs {
							if core.ObjOf(inf, l) == v {
								defs++
								if len(as.Lhs) != len(as.Rhs) || !fresh(as.Rhs[i]) {
									all = false
								}
							}
						}
					}
					return true
				})
				depth--
				return defs > 0 && all
			}
			return false
		case *ast.CallExpr:
			if b, ok := core.ObjOf(inf, y.Fun).(*types.Builtin); ok {
				switch b.Name() {
				case "make", "new":
					return true
				case "append":
					return len(y.Args) > 0 && fresh(y.Args[0])
				}
				return false
			}
			if tv, ok := inf.Types[y.Fun]; ok && tv.IsType() {
				return len(y.Args) == 1 && fresh(y.Args[0])
			}
			return true // a call builds what it returns (slices.Clone, maps.Clone, a copy helper)
		}
		return false
	}
	for i := 0; i < st.NumFields(); i++ {
		fv := st.Field(i)
		switch u := fv.Type().Underlying().(type) {
		case *types.Map, *types.Slice:
		case *types.Pointer:
			if pn := namedOf(u.Elem()); pn == nil || !c.M.InModule(pn.Obj().Pkg()) || isSyncType(u.Elem()) {
				continue
			}
		default:
			continue
		}
		name := core.NameOf(fv)
		vs := vals[name]
		if len(vs) == 0 {
			c.OK(rel, "(*serviceUris).copy", "field "+name+" of the copy does not share the original's storage", fd.Pos(), "left at its zero value")
			continue
		}
		shared := ""
		for _, v := range vs {
			if !fresh(v) {
				shared = core.ExprString(v)
			}
		}
		c.Check(shared == "", rel, "(*serviceUris).copy", "field "+name+" of the copy does not share the original's storage", vs[0].Pos(), "",
			name+" is given "+shared+": the copy and the original share that storage, so an in-place change of the new snapshot shows through every snapshot handed out earlier")
	}
}

func containsSyncByValue(t types.Type, depth int) bool { return core.ContainsSyncByValue(t, depth) }

func runR188(c *core.Ctx) {
	byType := map[*types.TypeName][]string{}
	var order []*types.TypeName
	for _, p := range c.M.Roots {
		scope := p.Types.Scope()
		for _, name := range scope.Names() {
			if tn, ok := scope.Lookup(name).(*types.TypeName); ok && !tn.IsAlias() {
				if _, isNamed := tn.Type().(*types.Named); isNamed && containsSyncByValue(tn.Type(), 0) {
					byType[tn] = nil
					order = append(order, tn)
				}
			}
		}
	}
	typeOf := func(t types.Type) *types.TypeName {
		if n, ok := t.(*types.Named); ok {
			if _, tracked := byType[n.Origin().Obj()]; tracked {
				return n.Origin().Obj()
			}
		}
		return nil
	}
	for _, p := range c.M.Roots {
		inf := p.TypesInfo
		rel := c.M.Rel(p.PkgPath)
		for _, fd := range c.M.FuncDecls(rel) {
			f, _ := inf.Defs[fd.Name].(*types.Func)
			if f == nil {
				continue
			}
			sig := f.Type().(*types.Signature)
			note := func(t types.Type, what string) {
				if tn := typeOf(t); tn != nil {
					byType[tn] = append(byType[tn], fmt.Sprintf("%s.%s has a %s of type %s (%s)", rel, core.DeclName(fd), what, tn.Name(), c.M.Position(fd.Pos())))
				}
			}
			if sig.Recv() != nil {
				note(sig.Recv().Type(), "value receiver")
			}
			for i := 0; i < sig.Params().Len(); i++ {
				note(sig.Params().At(i).Type(), "value parameter")
			}
			for i := 0; i < sig.Results().Len(); i++ {
				note(sig.Results().At(i).Type(), "value result")
			}
			if fd.Body == nil {
				continue
			}
			// copies out of a pointer: x := *p, x = *p, T{…: *p}
			ast.Inspect(fd.Body, func(x ast.Node) bool {
				if st, ok := x.(*ast.StarExpr); ok {
					if tv, ok := inf.Types[st]; ok && tv.IsValue() {
						if tn := typeOf(tv.Type); tn != nil {
							// a dereference that is only the base of a selector / method call is not a copy
							byTypeCopy(c, fd, st, tn, rel, byType)
						}
					}
				}
				return true
			})
		}
	}
	sort.Slice(order, func(i, j int) bool {
		return order[i].Pkg().Path()+order[i].Name() < order[j].Pkg().Path()+order[j].Name()
	})
	for _, tn := range order {
		probs := dedupe(byType[tn])
		sort.Strings(probs)
		c.Check(len(probs) == 0, c.M.Rel(tn.Pkg().Path()), tn.Name(), "values of the type are never copied", tn.Pos(), "contains a sync primitive by value",
			strings.Join(probs, "; ")+": the copy has its own WaitGroup / lock, so waiting or unlocking through it has no effect on (and gets no signal from) the original")
	}
	if len(order) == 0 {
		c.Unknown("-", "-", "types that contain a sync primitive", token.NoPos, "none found")
	}
}

func byTypeCopy(c *core.Ctx, fd *ast.FuncDecl, st *ast.StarExpr, tn *types.TypeName, rel string, byType map[*types.TypeName][]string) {
	par := core.Parents(fd)
	p := par[st]
	for {
		if pe, ok := p.(*ast.ParenExpr); ok {
			p = par[pe]
			continue
		}
		break
	}
	switch y := p.(type) {
	case *ast.SelectorExpr:
		return // (*p).f
	case *ast.UnaryExpr:
		if y.Op == token.AND {
			return
		}
	case *ast.AssignStmt:
		for _, l := range y.Lhs {
			if core.Unparen(l) == ast.Expr(st) {
				return // *p = … is a store, not a copy out
			}
		}
	}
	byType[tn] = append(byType[tn], fmt.Sprintf("%s.%s copies a %s out of a pointer (%s)", rel, core.DeclName(fd), tn.Name(), c.M.Position(st.Pos())))
}

func runR1610(c *core.Ctx) {
	rel := "restli/batchkeyset"
	if c.M.Pkg(rel) == nil {
		rel = "protocol/batchkeyset"
	}
	inf := info(c, rel)
	n := 0
	for _, fd := range c.M.FuncDecls(rel) {
		if fd.Body == nil || fd.Name.Name != "LocateOriginalKeyFromReader" {
			continue
		}
		n++
		// values that derive from the decoder's result
		decoded := map[types.Object]bool{}
		for round := 0; round < 4; round++ {
			ast.Inspect(fd.Body, func(x ast.Node) bool {
				as, ok := x.(*ast.AssignStmt)
				if !ok || len(as.Rhs) == 0 {
					return true
				}
				for i, l := range as.Lhs {
					o := core.ObjOf(inf, l)
					if o == nil {
						continue
					}
					rhs := as.Rhs[0]
					if len(as.Lhs) == len(as.Rhs) {
						rhs = as.Rhs[i]
					} else if i != 0 {
						continue
					}
					if call, ok := core.Unparen(rhs).(*ast.CallExpr); ok {
						if f := core.Callee(inf, call); f != nil && (strings.HasPrefix(core.NameOf(f), "Unmarshal") || strings.HasPrefix(core.NameOf(f), "Read")) && !strings.HasPrefix(core.NameOf(f), "ReadRawBytes") {
							decoded[o] = true
							continue
						}
						// a dynamic call of an unmarshaler value
						if f := core.Callee(inf, call); f == nil {
							if v, ok := core.ObjOf(inf, call.Fun).(*types.Var); ok && strings.Contains(strings.ToLower(v.Name()), "unmarshal") {
								decoded[o] = true
								continue
							}
						}
					}
					dep := false
					ast.Inspect(rhs, func(y ast.Node) bool {
						if id, ok := y.(*ast.Ident); ok && decoded[inf.Uses[id]] {
							dep = true
						}
						return true
					})
					if dep {
						decoded[o] = true
					}
				}
				return true
			})
		}
		var bad []string
		lookups := 0
		derives := func(e ast.Expr) bool {
			dep := false
			ast.Inspect(e, func(y ast.Node) bool {
				if id, ok := y.(*ast.Ident); ok && decoded[inf.Uses[id]] {
					dep = true
				}
				return true
			})
			return dep
		}
		ast.Inspect(fd.Body, func(x ast.Node) bool {
			switch y := x.(type) {
			case *ast.IndexExpr:
				if fv, ok := core.ObjOf(inf, y.X).(*types.Var); ok && fv.IsField() && core.NameOf(fv) == "originalKeys" {
					lookups++
					if !derives(y.Index) {
						bad = append(bad, core.ExprString(y)+" at "+c.M.Position(y.Pos()))
					}
				}
			case *ast.CallExpr:
				if f := core.Callee(inf, y); f != nil && core.NameOf(f) == "LocateOriginalKey" && len(y.Args) == 1 {
					lookups++
					if !derives(y.Args[0]) {
						bad = append(bad, core.ExprString(y)+" at "+c.M.Position(y.Pos()))
					}
				}
			}
			return true
		})
		c.Check(len(bad) == 0 && lookups > 0, rel, core.DeclName(fd), "every lookup uses the decoded key", fd.Pos(), fmt.Sprintf("%d lookups", lookups),
			fmt.Sprintf("%d lookups; not derived from the decoder's result: %s", lookups, strings.Join(bad, "; ")))
	}
	if n == 0 {
		c.Unknown(rel, "-", "LocateOriginalKeyFromReader implementations", token.NoPos, "none found")
	}
}

func runR1611(c *core.Ctx) {
	const rel = "restli"
	inf := info(c, rel)
	_, fd := mustDecl(c, rel, "doBatchQuery")
	direct, inLit, wrapped := 0, 0, ""
	var visit func(n ast.Node, lit bool)
	visit = func(n ast.Node, lit bool) {
		ast.Inspect(n, func(x ast.Node) bool {
			switch y := x.(type) {
			case *ast.FuncLit:
				if !lit {
					visit(y.Body, true)
					return false
				}
			case *ast.CallExpr:
				if f := core.Callee(inf, y); f != nil {
					switch core.NameOf(f) {
					case "UnmarshalWithKeyLocator":
						if lit {
							inLit++
						} else {
							direct++
						}
					case "DoAndUnmarshal":
						wrapped = "DoAndUnmarshal"
					}
				}
			}
			return true
		})
	}
	visit(fd.Body, false)
	c.Check(direct > 0 && inLit == 0 && wrapped == "", rel, "doBatchQuery", "UnmarshalWithKeyLocator is called, and its error returned, by doBatchQuery itself", fd.Pos(), "",
		fmt.Sprintf("direct calls %d, calls inside a callback %d, wrapper %q: the locator's missing-fields error passes through a lenient filter and an unresolved key truncates the response silently", direct, inLit, wrapped))
}

func runR207(c *core.Ctx) {
	const rel = "codegen/utils"
	inf := info(c, rel)
	cf, _ := mustDecl(c, rel, "CleanTargetDir")
	n := 0
	for _, cfd := range cleanerComponent(c, rel, cf) {
		bodies := []*ast.BlockStmt{cfd.Body}
		for _, fl := range core.AllFuncLits(cfd.Body) {
			bodies = append(bodies, fl.Body)
		}
		for _, body := range bodies {
			// the suffix test
			var tests []*ast.CallExpr
			core.WalkNoFuncLit(body, func(x ast.Node) bool {
				if call, ok := x.(*ast.CallExpr); ok {
					if f := core.Callee(inf, call); core.IsFunc(f, "strings", "HasSuffix") && len(call.Args) == 2 {
						if k, ok := constObj(c, inf, call.Args[1]).(*types.Const); ok && k.Val().Kind() == constant.String {
							tests = append(tests, call)
						}
					}
				}
				return true
			})
			for _, test := range tests {
				n++
				spared := ""
				const (
					sOwned = 1 << iota
					sRemoved
				)
				fl := core.NewFlow(c.M, inf, body)
				fl.Run(&core.Automaton{
					AtEnd: true,
					Block: func(st int, b *cfgBlock) int {
						// the next iteration / the end of the loop: an owned entry must have been removed
						if (b.Kind == cfgKindRangeLoop || b.Kind == cfgKindForLoop || b.Kind == cfgKindRangeDone || b.Kind == cfgKindForDone) && st&sOwned != 0 && st&sRemoved == 0 && spared == "" {
							spared = "the next iteration"
						}
						if b.Kind == cfgKindRangeLoop || b.Kind == cfgKindForLoop {
							return 0
						}
						return st
					},
					Node: func(st int, x ast.Node) int {
						for _, call := range core.CallsIn(x) {
							if f := core.Callee(inf, call); f != nil && f.Pkg() != nil && f.Pkg().Path() == "os" && (f.Name() == "Remove" || f.Name() == "RemoveAll") {
								st |= sRemoved
							}
						}
						if _, ok := x.(*ast.ReturnStmt); ok {
							return 0
						}
						return st
					},
					Edge: func(st int, facts []core.Fact) (int, bool) {
						for _, f := range facts {
							if f.Tag == nil && core.Unparen(f.Expr) == ast.Expr(test) && f.Val {
								st |= sOwned
							}
						}
						return st, true
					},
				})
				c.Check(spared == "", rel, core.DeclName(cfd), fmt.Sprintf("an entry with the generated suffix #%d is removed on every path", ordinal(cfd, test)), test.Pos(), "",
					spared+" is reachable for an entry that carries the generator's suffix without os.Remove: another condition spares an owned file")
			}
		}
	}
	if n == 0 {
		c.Unknown(rel, "CleanTargetDir", "the suffix test of the cleaner", token.NoPos, "no strings.HasSuffix(name, <suffix constant>) in the cleaner")
	}
}

func runR1212(c *core.Ctx) {
	const rel = "codegen/utils"
	inf := info(c, rel)
	_, fd := mustDecl(c, rel, "(*typeRegistry).Register")
	recv := recvObj(inf, fd)
	par := core.Parents(fd)
	sig, _ := inf.Defs[fd.Name].Type().(*types.Signature)
	// locals that alias a map of the registry (types, ok := reg.packageRoots[root])
	alias := map[types.Object]bool{}
	ast.Inspect(fd.Body, func(x ast.Node) bool {
		if as, ok := x.(*ast.AssignStmt); ok && len(as.Rhs) >= 1 {
			if r := rootIdent(as.Rhs[0]); r != nil && inf.Uses[r] == recv {
				if o := core.ObjOf(inf, as.Lhs[0]); o != nil {
					switch o.Type().Underlying().(type) {
					case *types.Map, *types.Slice, *types.Pointer:
						alias[o] = true
					}
				}
			}
		}
		return true
	})
	isStore := func(x ast.Node) string {
		switch y := x.(type) {
		case *ast.AssignStmt:
			for _, l := range y.Lhs {
				switch core.Unparen(l).(type) {
				case *ast.IndexExpr, *ast.SelectorExpr:
					if r := rootIdent(l); r != nil && (inf.Uses[r] == recv || alias[inf.Uses[r]]) {
						return core.ExprString(l)
					}
				}
			}
		}
		for _, call := range core.CallsIn(x) {
			if sel, ok := core.Unparen(call.Fun).(*ast.SelectorExpr); ok {
				if r := rootIdent(sel.X); r != nil && (alias[inf.Uses[r]] || inf.Uses[r] == recv) {
					if f := core.Callee(inf, call); f != nil && c.M.InModule(f.Pkg()) {
						for _, w := range []string{"Add", "Set", "Put", "Insert", "Remove", "Delete", "Store"} {
							if strings.HasPrefix(core.NameOf(f), w) {
								return core.ExprString(call.Fun) + "(…)"
							}
						}
					}
				}
			}
			if f := core.Callee(inf, call); f != nil && c.M.InModule(f.Pkg()) && len(pkgLevelWritesOf(c, f)) > 0 {
				return core.ExprString(call.Fun) + "(…) (stores into a package-level table)"
			}
		}
		return ""
	}
	after := ""
	stored := ""
	core.NewFlow(c.M, inf, fd.Body).Run(&core.Automaton{
		Node: func(st int, x ast.Node) int {
			if r, ok := x.(*ast.ReturnStmt); ok && st == 1 && after == "" && core.ErrorReturn(inf, par, sig, r) == "error" {
				after = c.M.Position(r.Pos())
			}
			if w := isStore(x); w != "" {
				if stored == "" {
					stored = w
				}
				return 1
			}
			return st
		},
	})
	c.Check(after == "", rel, "(*typeRegistry).Register", "error returns precede every store into the registry", fd.Pos(), "",
		"the error return at "+after+" is reachable after "+stored+": a rejected registration is partly recorded")
}

// pkgLevelWritesOf: the package-level stores of a module function's own body.
func pkgLevelWritesOf(c *core.Ctx, f *types.Func) []string {
	fd := c.M.Decl(f.Origin())
	if fd == nil || fd.Body == nil {
		return nil
	}
	inf := c.M.InfoFor(fd.Pos())
	if inf == nil {
		return nil
	}
	return pkgLevelWrites(c, inf, fd.Body)
}

func runR1213(c *core.Ctx) {
	if !goBelow122(c) {
		c.OK("-", "-", "go directive is 1.22 or later: loop variables are per iteration", token.NoPos, "")
		return
	}
	loops, kept := 0, 0
	for _, p := range c.M.Roots {
		inf := p.TypesInfo
		rel := c.M.Rel(p.PkgPath)
		for _, fd := range c.M.FuncDecls(rel) {
			if fd.Body == nil || strings.HasSuffix(c.M.Fset.File(fd.Pos()).Name(), ".gr.go") {
				continue
			}
			par := core.Parents(fd)
			var bad []string
			ast.Inspect(fd.Body, func(x ast.Node) bool {
				var vars []types.Object
				var body *ast.BlockStmt
				switch y := x.(type) {
				case *ast.RangeStmt:
					if y.Tok == token.DEFINE {
						for _, e := range []ast.Expr{y.Key, y.Value} {
							if e != nil {
								if o := core.ObjOf(inf, e); o != nil {
									vars = append(vars, o)
								}
							}
						}
					}
					body = y.Body
				case *ast.ForStmt:
					if as, ok := y.Init.(*ast.AssignStmt); ok && as.Tok == token.DEFINE {
						for _, l := range as.Lhs {
							if o := core.ObjOf(inf, l); o != nil {
								vars = append(vars, o)
							}
						}
					}
					body = y.Body
				}
				if body == nil || len(vars) == 0 {
					return true
				}
				loops++
				for _, fl := range core.FuncLitsIn(body) {
					captured := ""
					ast.Inspect(fl.Body, func(z ast.Node) bool {
						if id, ok := z.(*ast.Ident); ok {
							for _, v := range vars {
								if inf.Uses[id] == v {
									captured = v.Name()
								}
							}
						}
						return true
					})
					if captured == "" {
						continue
					}
					// how is the literal used?
					var p ast.Node = par[fl]
					for {
						if pe, ok := p.(*ast.ParenExpr); ok {
							p = par[pe]
							continue
						}
						break
					}
					how := ""
					switch y := p.(type) {
					case *ast.CallExpr:
						if core.Unparen(y.Fun) == ast.Expr(fl) {
							switch par[y].(type) {
							case *ast.DeferStmt:
								how = "deferred"
							case *ast.GoStmt:
								how = "started as a goroutine"
							}
						} else if b, ok := core.ObjOf(inf, y.Fun).(*types.Builtin); ok && b.Name() == "append" {
							how = "appended to a slice"
						}
					case *ast.AssignStmt:
						for i, r := range y.Rhs {
							if core.Unparen(r) == ast.Expr(fl) && i < len(y.Lhs) {
								switch l := core.Unparen(y.Lhs[i]).(type) {
								case *ast.Ident:
									o := core.ObjOf(inf, l)
									if o != nil && y.Tok != token.DEFINE && (core.ObjPos(o) < body.Pos() || core.ObjPos(o) > body.End()) {
										how = "assigned to " + l.Name + ", which outlives the iteration"
									} else if o != nil {
										// a variable of the iteration: kept if it is used other than by being called
										ast.Inspect(body, func(z ast.Node) bool {
											id, ok := z.(*ast.Ident)
											if !ok || inf.Uses[id] != o || how != "" {
												return true
											}
											if call, ok := par[id].(*ast.CallExpr); ok && core.Unparen(call.Fun) == ast.Expr(id) {
												switch par[call].(type) {
												case *ast.DeferStmt:
													how = "deferred through " + id.Name
												case *ast.GoStmt:
													how = "started as a goroutine through " + id.Name
												}
												return true
											}
											how = "kept through " + id.Name + " (" + c.M.Position(id.Pos()) + ")"
											return true
										})
									}
								default:
									how = "stored in " + core.ExprString(l)
								}
							}
						}
					case *ast.KeyValueExpr, *ast.CompositeLit:
						how = "stored in a composite value"
					}
					if how != "" {
						kept++
						bad = append(bad, fmt.Sprintf("the literal at %s mentions the loop variable %s and is %s", c.M.Position(fl.Pos()), captured, how))
					}
				}
				return true
			})
			if len(bad) > 0 {
				c.Bad(rel, core.DeclName(fd), "kept closures do not capture a loop variable", fd.Pos(), strings.Join(bad, "; ")+": with go < 1.22 every such closure sees the value of the last iteration")
			}
		}
	}
	c.OK("-", "-", "loops scanned for kept closures that capture the loop variable", token.NoPos, fmt.Sprintf("%d loops with a declared variable, %d kept closures capturing it", loops, kept))
}

func init() {
	core.Register(&core.Rule{
		ID:    "R17.12",
		Title: "resolving a host writes nothing it was handed",
		Text: "In package d2, every function reachable (call graph) from Client.ResolveHostnameAndContextForQuery stores through none of its slice, map or pointer parameters (element or field stores, delete, clear), " +
			"unless the parameter was first replaced by a fresh value in that function (copy-on-write: `watcher = watcher.copy()`). Service definitions and snapshots are shared by every concurrent resolution; normalising one in place while choosing a host is a data race and changes what other requests see.",
		Props: []string{"C17", "C19"},
		Floor: map[string]int{"v2": 1, "root": 1},
		Run:   runR1712,
	})
	core.Register(&core.Rule{
		ID:    "R04.12",
		Title: "a pointer that came with an error is not dereferenced until the error is known nil",
		Text: "In the client and codec packages: for `p, err := f(…)` (also `=`) where f is a function of the module that has a return pairing a nil pointer with an error, every dereference of p (`*p`, a field selection through p) is reached only on paths on which `err == nil` (or `p != nil`) has been established " +
			"— not merely on paths where some errors were let through. Tolerating one kind of error and then using the value panics in the caller's goroutine on exactly the malformed response the error described.",
		Props: []string{"C04", "C08"},
		Floor: map[string]int{"v2": 3, "root": 3},
		Run:   runR0412,
	})
	core.Register(&core.Rule{
		ID:    "R06.8",
		Title: "what a decoder read is in the receiver when the error is returned",
		Text: "In the hand-written envelope decoders (restlidata / common: methods named Unmarshal* that call Reader.ReadRecord): no field of the receiver is assigned after ReadRecord has returned, i.e. on a path that depends on its error. " +
			"ReadRecord reports missing required fields only after the whole document was read; a decoder that fills a temporary and copies it over only on success hands the lenient client an empty value together with the (dropped) error.",
		Props: []string{"C06"},
		Floor: map[string]int{"v2": 4, "root": 4},
		Run:   runR068,
	})
	core.Register(&core.Rule{
		ID:    "R06.9",
		Title: "missing-field paths are spelled by the tracker only",
		Text: "In restlicodec an element is appended to a tracker's missingFields only (a) by the tracker's own recorder, from its scope string, or (b) as the spread of another tracker's list (`append(t.missingFields, v.missingFields...)`). " +
			"A path assembled elsewhere (`k + \".\" + f`) spells array segments differently (`ids.[1].b` for `ids[1].b`), so the same omission is reported differently by the query-parameter reader than by the other readers.",
		Props: []string{"C06"},
		Floor: map[string]int{"v2": 2, "root": 2},
		Run:   runR069,
	})
	core.Register(&core.Rule{
		ID:    "R15.8",
		Title: "an offset found in a re-sliced string is applied to that slice",
		Text: "In the runtime packages: for `i := strings.Index…(s[a:], …)` (Index, IndexByte, IndexRune, IndexAny, LastIndex…, also package bytes) with a lower bound a other than 0, i is an offset into s[a:]. " +
			"Using i as a bound or index of s itself without adding a cuts the result short by a bytes (RootResource of \"/search/1\" becomes \"searc\"): every use of i in an index or slice expression of s mentions a as well, or applies to the same s[a:].",
		Props: []string{"C15", "C04", "C02"},
		Floor: map[string]int{"v2": 1, "root": 1},
		Run:   runR158,
	})
}

func runR1712(c *core.Ctx) {
	const rel = "d2"
	inf := info(c, rel)
	entry := mustFunc(c, rel, "(*Client).ResolveHostnameAndContextForQuery")
	cg := c.M.CallGraph()
	start := cg.Nodes[c.M.SSAFunc(entry)]
	if start == nil {
		c.Unknown(rel, "(*Client).ResolveHostnameAndContextForQuery", "call-graph node", entry.Pos(), "not in the call graph")
		return
	}
	seen := map[int]bool{}
	stack := []*callgraphNode{start}
	var problems []string
	scanned := 0
	for len(stack) > 0 {
		n := stack[len(stack)-1]
		stack = stack[:len(stack)-1]
		if seen[n.ID] {
			continue
		}
		seen[n.ID] = true
		for _, e := range n.Out {
			// what a resolution starts as a goroutine (the tree cache's watcher loop) owns its own state
			if _, isGo := e.Site.(*ssa.Go); isGo {
				continue
			}
			stack = append(stack, e.Callee)
		}
		fn := n.Func
		if fn == nil || fn.Pkg == nil || fn.Pkg.Pkg == nil || c.M.Rel(fn.Pkg.Pkg.Path()) != rel || !c.M.InModule(fn.Pkg.Pkg) {
			continue
		}
		var ftype *ast.FuncType
		var body *ast.BlockStmt
		var recvList *ast.FieldList
		switch y := fn.Syntax().(type) {
		case *ast.FuncDecl:
			ftype, body, recvList = y.Type, y.Body, y.Recv
		case *ast.FuncLit:
			ftype, body = y.Type, y.Body
		}
		if body == nil {
			continue
		}
		scanned++
		params := map[types.Object]bool{}
		for _, list := range []*ast.FieldList{recvList, ftype.Params} {
			if list == nil {
				continue
			}
			for _, fl := range list.List {
				for _, nm := range fl.Names {
					if o := inf.Defs[nm]; o != nil {
						switch o.Type().Underlying().(type) {
						case *types.Slice, *types.Map, *types.Pointer:
							params[o] = true
						}
					}
				}
			}
		}
		// a parameter that is replaced by a fresh value somewhere in the function is a copy-on-write handle
		core.WalkNoFuncLit(body, func(x ast.Node) bool {
			if as, ok := x.(*ast.AssignStmt); ok && len(as.Lhs) == len(as.Rhs) {
				for i, l := range as.Lhs {
					if id, ok := core.Unparen(l).(*ast.Ident); ok && params[inf.Uses[id]] {
						switch core.Unparen(as.Rhs[i]).(type) {
						case *ast.CallExpr, *ast.CompositeLit, *ast.UnaryExpr:
							delete(params, inf.Uses[id])
						}
					}
				}
			}
			return true
		})
		// the receiver of a type that guards itself (a mutex inside) may write its own fields
		core.WalkNoFuncLit(body, func(x ast.Node) bool {
			check := func(l ast.Expr, pos token.Pos) {
				switch core.Unparen(l).(type) {
				case *ast.IndexExpr, *ast.SelectorExpr, *ast.StarExpr:
				default:
					return
				}
				r := rootIdent(l)
				if r == nil || !params[inf.Uses[r]] {
					return
				}
				if pt, ok := inf.Uses[r].Type().(*types.Pointer); ok && core.ContainsSyncByValue(pt.Elem(), 0) {
					return
				}
				problems = append(problems, fmt.Sprintf("%s stores through its parameter %s at %s", fn.String(), r.Name, c.M.Position(pos)))
			}
			switch y := x.(type) {
			case *ast.AssignStmt:
				for _, l := range y.Lhs {
					check(l, l.Pos())
				}
			case *ast.IncDecStmt:
				check(y.X, y.Pos())
			case *ast.CallExpr:
				if b, ok := core.ObjOf(inf, y.Fun).(*types.Builtin); ok && (b.Name() == "delete" || b.Name() == "clear") && len(y.Args) > 0 {
					if r := rootIdent(y.Args[0]); r != nil && params[inf.Uses[r]] {
						problems = append(problems, fmt.Sprintf("%s %ss from its parameter %s at %s", fn.String(), b.Name(), r.Name, c.M.Position(y.Pos())))
					}
				}
			}
			return true
		})
	}
	sort.Strings(problems)
	c.Check(len(problems) == 0, rel, "(*Client).ResolveHostnameAndContextForQuery", "nothing reachable from a resolution stores through a parameter", entry.Pos(), fmt.Sprintf("%d functions of d2 reachable", scanned),
		strings.Join(dedupe(problems), "; ")+": what is handed to a resolution is shared with every other one")
}

func runR0412(c *core.Ctx) {
	n := 0
	// callees that can pair a nil pointer with an error
	nilWithErr := map[*types.Func]bool{}
	pairs := func(f *types.Func) bool {
		f = f.Origin()
		if v, ok := nilWithErr[f]; ok {
			return v
		}
		nilWithErr[f] = false
		fd := c.M.Decl(f)
		if fd == nil || fd.Body == nil {
			return false
		}
		inf := c.M.InfoFor(fd.Pos())
		sig := f.Type().(*types.Signature)
		if inf == nil || sig.Results().Len() < 2 || !core.IsErrorType(sig.Results().At(sig.Results().Len()-1).Type()) {
			return false
		}
		if _, isPtr := sig.Results().At(0).Type().(*types.Pointer); !isPtr {
			return false
		}
		for _, r := range core.ReturnsIn(fd.Body) {
			if len(r.Results) == sig.Results().Len() && core.IsNil(inf, r.Results[0]) && !core.IsNil(inf, r.Results[len(r.Results)-1]) {
				nilWithErr[f] = true
			}
		}
		return nilWithErr[f]
	}
	for rel, p := range c.M.Pkgs {
		switch {
		case rel == "restli", rel == "restlicodec", rel == "protocol", rel == "d2", rel == "restlidata", strings.HasSuffix(rel, "com/linkedin/restli/common"), strings.HasSuffix(rel, "batchkeyset"):
		default:
			continue
		}
		inf := p.TypesInfo
		for _, fd := range c.M.FuncDecls(rel) {
			if fd.Body == nil || strings.HasSuffix(c.M.Fset.File(fd.Pos()).Name(), ".gr.go") {
				continue
			}
			type site struct {
				stmt   *ast.AssignStmt
				p, err types.Object
				callee string
			}
			var sites []site
			core.WalkNoFuncLit(fd.Body, func(x ast.Node) bool {
				as, ok := x.(*ast.AssignStmt)
				if !ok || len(as.Rhs) != 1 || len(as.Lhs) < 2 {
					return true
				}
				call, ok := core.Unparen(as.Rhs[0]).(*ast.CallExpr)
				if !ok {
					return true
				}
				f := core.Callee(inf, call)
				if f == nil || !c.M.InModule(f.Pkg()) || !pairs(f) {
					return true
				}
				po, eo := core.ObjOf(inf, as.Lhs[0]), core.ObjOf(inf, as.Lhs[len(as.Lhs)-1])
				if po == nil || eo == nil {
					return true
				}
				sites = append(sites, site{as, po, eo, core.NameOf(f)})
				return true
			})
			for _, s := range sites {
				n++
				const (
					sLive = 1 << iota // the pair was assigned at this site and not since
					sSafe
				)
				bad := ""
				derefs := func(x ast.Node) token.Pos {
					var at token.Pos
					core.WalkNoFuncLit(x, func(y ast.Node) bool {
						switch z := y.(type) {
						case *ast.StarExpr:
							if core.ObjOf(inf, z.X) == s.p {
								at = z.Pos()
							}
						case *ast.SelectorExpr:
							if id, ok := core.Unparen(z.X).(*ast.Ident); ok && inf.Uses[id] == s.p {
								if sel := inf.Selections[z]; sel != nil && sel.Kind() == types.FieldVal {
									at = z.Pos()
								}
							}
						}
						return true
					})
					return at
				}
				core.NewFlow(c.M, inf, fd.Body).Run(&core.Automaton{
					Node: func(st int, x ast.Node) int {
						if x == ast.Node(s.stmt) {
							return sLive
						}
						if as, ok := x.(*ast.AssignStmt); ok {
							for _, l := range as.Lhs {
								if o := core.ObjOf(inf, l); o == s.p || o == s.err {
									if _, isId := core.Unparen(l).(*ast.Ident); isId {
										return 0
									}
								}
							}
						}
						if st&sLive != 0 && st&sSafe == 0 && bad == "" {
							if at := derefs(x); at != token.NoPos {
								bad = c.M.Position(at)
							}
						}
						return st
					},
					Edge: func(st int, facts []core.Fact) (int, bool) {
						if st&sLive == 0 {
							return st, true
						}
						for _, f := range facts {
							if x, nonNil, ok := core.NilTest(inf, f); ok {
								if o := core.ObjOf(inf, x); o == s.err && !nonNil {
									st |= sSafe
								} else if o == s.p && nonNil {
									st |= sSafe
								}
							}
						}
						return st, true
					},
				})
				c.Check(bad == "", rel, core.DeclName(fd), fmt.Sprintf("%s from %s #%d is dereferenced only where its error is known nil", s.p.Name(), s.callee, ordinal(fd, s.stmt)), s.stmt.Pos(), "",
					s.p.Name()+" is dereferenced at "+bad+" on a path on which "+s.err.Name()+" == nil was not established; "+s.callee+" returns a nil pointer together with some of its errors")
			}
		}
	}
	if n == 0 {
		c.Unknown("-", "-", "calls of functions that pair a nil pointer with an error", token.NoPos, "none found")
	}
}

func runR068(c *core.Ctx) {
	rel := ""
	for r := range c.M.Pkgs {
		if strings.HasSuffix(r, "com/linkedin/restli/common") || (r == "restlidata" && rel == "") {
			rel = r
		}
	}
	if rel == "" {
		c.Unknown("-", "-", "package of the envelope types", token.NoPos, "not loaded")
		return
	}
	inf := info(c, rel)
	n := 0
	for _, fd := range c.M.FuncDecls(rel) {
		if fd.Body == nil || fd.Recv == nil || !strings.HasPrefix(fd.Name.Name, "Unmarshal") || strings.HasSuffix(c.M.Fset.File(fd.Pos()).Name(), ".gr.go") {
			continue
		}
		recv := recvObj(inf, fd)
		var rr *ast.CallExpr
		core.WalkNoFuncLit(fd.Body, func(x ast.Node) bool {
			if call, ok := x.(*ast.CallExpr); ok {
				if f := core.Callee(inf, call); f != nil && core.NameOf(f) == "ReadRecord" {
					rr = call
				}
			}
			return true
		})
		if rr == nil || recv == nil {
			continue
		}
		n++
		late := ""
		core.NewFlow(c.M, inf, fd.Body).Run(&core.Automaton{
			Node: func(st int, x ast.Node) int {
				if st == 1 && late == "" {
					if as, ok := x.(*ast.AssignStmt); ok {
						for _, l := range as.Lhs {
							if sel, ok := core.Unparen(l).(*ast.SelectorExpr); ok {
								if r := rootIdent(sel); r != nil && inf.Uses[r] == recv {
									late = core.ExprString(l) + " at " + c.M.Position(l.Pos())
								}
							}
							if st, ok := core.Unparen(l).(*ast.StarExpr); ok && core.ObjOf(inf, st.X) == recv {
								late = core.ExprString(l) + " at " + c.M.Position(l.Pos())
							}
						}
					}
				}
				for _, call := range core.CallsIn(x) {
					if call == rr {
						return 1
					}
				}
				return st
			},
		})
		c.Check(late == "", rel, core.DeclName(fd), "the receiver is filled while the record is read, not afterwards", fd.Pos(), "",
			late+" is assigned after ReadRecord returned: when required fields are missing the assignment is skipped and the fields that were present are lost")
	}
	if n == 0 {
		c.Unknown(rel, "-", "hand-written decoders that call ReadRecord", token.NoPos, "none found")
	}
}

func runR069(c *core.Ctx) {
	const rel = "restlicodec"
	inf := info(c, rel)
	n := 0
	isMissing := func(e ast.Expr) bool {
		fv, ok := core.ObjOf(inf, e).(*types.Var)
		return ok && fv.IsField() && core.NameOf(fv) == "missingFields"
	}
	for _, fd := range c.M.FuncDecls(rel) {
		if fd.Body == nil {
			continue
		}
		ast.Inspect(fd.Body, func(x ast.Node) bool {
			call, ok := x.(*ast.CallExpr)
			if !ok || len(call.Args) < 2 {
				return true
			}
			if b, ok := core.ObjOf(inf, call.Fun).(*types.Builtin); !ok || b.Name() != "append" || !isMissing(call.Args[0]) {
				return true
			}
			n++
			name := core.DeclName(fd)
			construct := fmt.Sprintf("append to missingFields #%d", ordinal(fd, call))
			if call.Ellipsis.IsValid() && len(call.Args) == 2 {
				c.Check(isMissing(call.Args[1]), rel, name, construct+" spreads another tracker's list", call.Pos(), "", "the spread operand "+core.ExprString(call.Args[1])+" is not a tracker's missingFields")
				return true
			}
			// an element: only in the tracker's recorder, built from its scope string
			inRecorder := strings.HasSuffix(name, ".recordMissingRequiredFields")
			fromScope := false
			for _, a := range call.Args[1:] {
				ast.Inspect(a, func(y ast.Node) bool {
					if id, ok := y.(*ast.Ident); ok {
						if v, ok := inf.Uses[id].(*types.Var); ok && !v.IsField() {
							// a local assigned from scopeString()
							ast.Inspect(fd.Body, func(z ast.Node) bool {
								if as, ok := z.(*ast.AssignStmt); ok && len(as.Lhs) == 1 && len(as.Rhs) == 1 && core.ObjOf(inf, as.Lhs[0]) == types.Object(v) {
									if sc, ok := core.Unparen(as.Rhs[0]).(*ast.CallExpr); ok {
										if f := core.Callee(inf, sc); f != nil && core.NameOf(f) == "scopeString" {
											fromScope = true
										}
									}
								}
								return true
							})
						}
					}
					if sc, ok := y.(*ast.CallExpr); ok {
						if f := core.Callee(inf, sc); f != nil && core.NameOf(f) == "scopeString" {
							fromScope = true
						}
					}
					return true
				})
			}
			c.Check(inRecorder && fromScope, rel, name, construct+" is made by the tracker's recorder from its scope string", call.Pos(), "",
				fmt.Sprintf("in the recorder: %v, built from scopeString(): %v — a path spelled elsewhere does not follow the tracker's spelling of array and map segments", inRecorder, fromScope))
			return true
		})
	}
	if n == 0 {
		c.Unknown(rel, "-", "appends to missingFields", token.NoPos, "none found")
	}
}

func runR158(c *core.Ctx) {
	funcs, sites := 0, 0
	for rel, p := range c.M.Pkgs {
		switch {
		case rel == "restli", rel == "restlicodec", rel == "protocol", rel == "d2", rel == "restlidata", strings.HasSuffix(rel, "batchkeyset"), rel == "restli/patch":
		default:
			continue
		}
		inf := p.TypesInfo
		for _, fd := range c.M.FuncDecls(rel) {
			if fd.Body == nil {
				continue
			}
			funcs++
			ast.Inspect(fd.Body, func(x ast.Node) bool {
				as, ok := x.(*ast.AssignStmt)
				if !ok || len(as.Lhs) != 1 || len(as.Rhs) != 1 {
					// `if i := …; i >= 0` is an AssignStmt in Init as well: covered, Inspect visits it
					return true
				}
				call, ok := core.Unparen(as.Rhs[0]).(*ast.CallExpr)
				if !ok || len(call.Args) < 1 {
					return true
				}
				f := core.Callee(inf, call)
				if f == nil || f.Pkg() == nil || (f.Pkg().Path() != "strings" && f.Pkg().Path() != "bytes") || !(strings.HasPrefix(f.Name(), "Index") || strings.HasPrefix(f.Name(), "LastIndex")) {
					return true
				}
				arg := core.Unparen(call.Args[0])
				// through a conversion string(s[1:])
				if conv, ok := arg.(*ast.CallExpr); ok && len(conv.Args) == 1 {
					if tv, ok := inf.Types[conv.Fun]; ok && tv.IsType() {
						arg = core.Unparen(conv.Args[0])
					}
				}
				se, ok := arg.(*ast.SliceExpr)
				if !ok || se.Low == nil {
					return true
				}
				if cv := core.ConstOf(inf, se.Low); cv != nil && cv.ExactString() == "0" {
					return true
				}
				iv := core.ObjOf(inf, as.Lhs[0])
				if iv == nil {
					return true
				}
				sites++
				base := se.X
				var bad []string
				mentions := func(e ast.Expr, o types.Object) bool {
					found := false
					if e == nil {
						return false
					}
					ast.Inspect(e, func(y ast.Node) bool {
						if id, ok := y.(*ast.Ident); ok && inf.Uses[id] == o {
							found = true
						}
						return true
					})
					return found
				}
				mentionsLow := func(e ast.Expr) bool {
					if e == nil {
						return false
					}
					found := false
					ast.Inspect(e, func(y ast.Node) bool {
						if ye, ok := y.(ast.Expr); ok && core.SameExpr(inf, ye, se.Low) {
							found = true
						}
						return true
					})
					return found
				}
				ast.Inspect(fd.Body, func(y ast.Node) bool {
					var on ast.Expr
					var bounds []ast.Expr
					switch z := y.(type) {
					case *ast.SliceExpr:
						on, bounds = z.X, []ast.Expr{z.Low, z.High}
					case *ast.IndexExpr:
						on, bounds = z.X, []ast.Expr{z.Index}
					default:
						return true
					}
					// through a conversion of the base
					o2 := core.Unparen(on)
					if !core.SameExpr(inf, o2, base) {
						return true
					}
					for _, b := range bounds {
						if b != nil && mentions(b, iv) && !mentionsLow(b) {
							bad = append(bad, core.ExprString(y.(ast.Expr))+" at "+c.M.Position(y.Pos()))
						}
					}
					return true
				})
				c.Check(len(bad) == 0, rel, core.DeclName(fd), fmt.Sprintf("offset %s found in %s is applied with its base", iv.Name(), core.ExprString(se)), as.Pos(), "",
					iv.Name()+" is an offset into "+core.ExprString(se)+" but bounds "+strings.Join(bad, ", ")+" without adding "+core.ExprString(se.Low)+": the result is short by that many bytes")
				return true
			})
		}
	}
	c.OK("-", "-", "functions scanned for offsets found in re-sliced strings", token.NoPos, fmt.Sprintf("%d functions, %d such searches", funcs, sites))
}

func init() {
	// what the sixth seeding round added to each property's claim (printed into the evidence files)
	for id, text := range map[string]string{
		"C10": "Round 6: R10.1, R10.2, R10.6, R10.8, R10.9 and the enum rule R11.3 (IsValid bound) also run on bindings produced by the root module's generator (gen/root, corpus:root/*).",
		"C01": "Round 6: the JSON reader's float methods go through JsonNumber(), which accepts the string forms the writer emits (R01.10); easyjson buffers are never read through Buffer.Buf (R01.11); object keys are unescaped (R03.5).",
		"C02": "Round 6: no normalising call between the request URL and the routed segments (R02.8); the tunnelling encoder names the verb on every path (R14.6); an offset found in a re-sliced string is applied with its base (R15.8).",
		"C03": "Round 6: R03.5 (keys unescaped), R01.10, R01.11.",
		"C04": "Round 6: a pointer that came with an error is dereferenced only where the error is known nil (R04.12); rune offsets are not element indices (R01.8 registered here); R15.8.",
		"C05": "Round 6: the path is routed as received: no Clean / FieldsFunc / Trim of '/' (R02.8).",
		"C06": "Round 6: receiver fields of the envelope decoders are assigned while the record is read, never after ReadRecord returned (R06.8); missing-field paths are spelled by the tracker's recorder only (R06.9); R03.5.",
		"C07": "Round 6: a truncating append through the slice field of a struct copy rewrites the original's elements (R12.6).",
		"C08": "Round 6: R02.7 and R04.12 registered here; a directly deferred named recover function counts as the recover (R08.5); the nil-status clause of R08.3 is a path property.",
		"C09": "Round 6: an outer string rewritten from itself and the entry visited, entry by entry of a map, is an order-dependent fold (R09.1).",
		"C11": "Round 6: R11.2 and R11.3 also run on bindings produced by the root module's generator (gen/root, corpus:root/*); R03.5.",
		"C12": "Round 6: a rejected Register leaves no trace (R12.12); kept closures do not capture a pre-1.22 loop variable (R12.13); call results of functions that hand out their receiver's slice are not owned, and a truncating append through such a local is flagged (R12.6); files with the generator's suffix are removed on every path (R20.7). R12.1 also type-checks bindings produced by the root module's generator against the root runtime (corpus:root/*).",
		"C13": "Round 6: R03.5 (an escaped spelling of a field name must still match its case, otherwise the default overrides data); R12.13. R13.3, R13.4, R13.5 also run on bindings produced by the root module's generator (corpus:root/*).",
		"C14": "Round 6: the override header is set from the verb on every path of EncodeTunnelledQuery (R14.6); allocation sizes never derive from Content-Length (R04.7 registered here).",
		"C15": "Round 6: R15.8 (offset in a re-sliced string); R02.8.",
		"C16": "Round 6: lookups in the key table use the decoded key only (R16.10); doBatchQuery returns the locator's verdict itself, not through a lenient wrapper (R16.11).",
		"C17": "Round 6: nothing reachable from a resolution stores through a parameter (R17.12); no value that contains a sync primitive is copied (R18.8); R12.13; R19.5.",
		"C18": "Round 6: no value receiver, parameter, result or copy of a type that contains a WaitGroup / lock (R18.8); such methods are never folded by the loader.",
		"C19": "Round 6: the snapshot copy shares no map or slice with its original (R19.5); R17.12; no error overwritten unread (R11.7 registered here).",
		"C20": "Round 6: an entry with the generator's suffix is removed on every path (R20.7).",
	} {
		if p := core.Properties[id]; p != nil {
			p.Explanation += "  " + text
		}
	}
}
