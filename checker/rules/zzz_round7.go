package rules

import (
	"fmt"
	"go/ast"
	"go/constant"
	"go/importer"
	"go/parser"
	"go/token"
	"go/types"
	"sort"
	"strings"

	"verif/checker/core"
)

// Rules added after the seventh seeding round.

func init() {
	core.Register(&core.Rule{
		ID:    "R04.13",
		Title: "query parameters are always decoded",
		Text: "In UnmarshalQueryParamsDecoder every return that is not certainly an error has passed through the instance's DecodeQueryParams: required parameters are accounted for, and batch decoders create their keys and inner parameters, only there. " +
			"A shortcut for an empty query hands resource code a zero-valued (or nil) parameter object instead of a 400.",
		Props: []string{"C04", "C06", "C05"},
		Floor: map[string]int{"v2": 1, "root": 1},
		Run:   runR0413,
	})
	core.Register(&core.Rule{
		ID:    "R18.9",
		Title: "Load never writes",
		Text: "LazySyncMap.Load (and whatever it calls in its package) calls none of sync.Map's writing methods (Store, LoadOrStore, Swap, CompareAndSwap, Delete, LoadAndDelete, CompareAndDelete): a reader that writes back what it saw " +
			"after waiting can overwrite a Store that was ordered after the computation it waited for.",
		Props: []string{"C18", "C17"},
		Floor: map[string]int{"v2": 1, "root": 1},
		Run:   runR189,
	})
	core.Register(&core.Rule{
		ID:    "R05.8",
		Title: "context keys are pairwise distinct",
		Text: "For every named type of the module whose values are used as keys of context.WithValue / Context.Value, the package-level constants of that type that are passed as keys have pairwise different values: two keys with one value " +
			"make a context-adding filter (ExtraRequestHeaders, AddResponseHeadersCaptor) shadow the routed method or resource path with a value of another type.",
		Props: []string{"C05", "C02"},
		Floor: map[string]int{"v2": 1, "root": 1},
		Run:   runR058,
	})
}

func runR0413(c *core.Ctx) {
	const rel = "restlicodec"
	inf := info(c, rel)
	f, fd := mustDecl(c, rel, "UnmarshalQueryParamsDecoder")
	sig := f.Type().(*types.Signature)
	par := core.Parents(fd)
	decodes := func(x ast.Node) bool {
		return hasCall(inf, x, func(cf *types.Func, _ *ast.CallExpr) bool { return core.NameOf(cf) == "DecodeQueryParams" })
	}
	early := reachWithout(c, inf, fd.Body, nil, decodes, func(x ast.Node) bool {
		r, ok := x.(*ast.ReturnStmt)
		return ok && !decodes(r) && core.ErrorReturn(inf, par, sig, r) != "error"
	})
	where := ""
	if len(early) > 0 {
		where = c.M.Position(early[0].Pos())
	}
	c.Check(len(early) == 0, rel, "UnmarshalQueryParamsDecoder", "every non-error return has decoded the parameters", fd.Pos(), "",
		"the return at "+where+" hands out the instance without DecodeQueryParams having run: required parameters are not checked and batch keys are not created")
}

func runR189(c *core.Ctx) {
	const rel = "d2/lazymap"
	inf := info(c, rel)
	_, fd := mustDecl(c, rel, "(*LazySyncMap).Load")
	writers := map[string]bool{"Store": true, "LoadOrStore": true, "Swap": true, "CompareAndSwap": true, "Delete": true, "LoadAndDelete": true, "CompareAndDelete": true, "Clear": true}
	var bad []string
	seen := map[*ast.FuncDecl]bool{}
	var walk func(d *ast.FuncDecl, depth int)
	walk = func(d *ast.FuncDecl, depth int) {
		if d == nil || d.Body == nil || seen[d] || depth > 3 {
			return
		}
		seen[d] = true
		for _, call := range core.CallsIn(d.Body) {
			cf := core.Callee(inf, call)
			if cf == nil {
				continue
			}
			if n := core.RecvNamed(cf); n != nil && n.Obj().Pkg() != nil && n.Obj().Pkg().Path() == "sync" && n.Obj().Name() == "Map" && writers[cf.Name()] {
				bad = append(bad, fmt.Sprintf("%s: sync.Map.%s", c.M.Position(call.Pos()), cf.Name()))
			}
			if c.M.PkgOf(cf) == c.M.Pkg(rel) {
				walk(c.M.Decl(cf.Origin()), depth+1)
			}
		}
	}
	walk(fd, 0)
	c.Check(len(bad) == 0, rel, "(*LazySyncMap).Load", "no writing call on the underlying map", fd.Pos(), "", strings.Join(bad, "; ")+" — a reader writes back a value that a later Store may already have replaced")
}

func runR058(c *core.Ctx) {
	n := 0
	for _, p := range c.M.Roots {
		inf := p.TypesInfo
		rel := c.M.Rel(p.PkgPath)
		keyTypes := map[*types.TypeName]bool{}
		usedAsKey := map[types.Object]bool{}
		for _, fd := range c.M.FuncDecls(rel) {
			if fd.Body == nil {
				continue
			}
			for _, call := range core.CallsIn(fd.Body) {
				cf := core.Callee(inf, call)
				var key ast.Expr
				switch {
				case core.IsFunc(cf, "context", "WithValue") && len(call.Args) == 3:
					key = call.Args[1]
				case cf != nil && cf.Name() == "Value" && cf.Pkg() != nil && cf.Pkg().Path() == "context" && len(call.Args) == 1:
					key = call.Args[0]
				}
				if key == nil {
					continue
				}
				if nn := namedOf(inf.Types[key].Type); nn != nil && nn.Obj().Pkg() == p.Types {
					keyTypes[nn.Obj()] = true
					if k, ok := core.ObjOf(inf, key).(*types.Const); ok {
						usedAsKey[k] = true
					}
				}
			}
		}
		var tns []*types.TypeName
		for tn := range keyTypes {
			tns = append(tns, tn)
		}
		sort.Slice(tns, func(i, j int) bool { return tns[i].Name() < tns[j].Name() })
		for _, tn := range tns {
			byVal := map[string][]string{}
			scope := p.Types.Scope()
			for _, name := range scope.Names() {
				k, ok := scope.Lookup(name).(*types.Const)
				if !ok || !types.Identical(k.Type(), tn.Type()) || !usedAsKey[k] {
					continue // a marker constant (`firstServerKey`) that is never a key itself cannot shadow anything
				}
				v := k.Val().ExactString()
				byVal[v] = append(byVal[v], core.NameOf(k))
			}
			var dup []string
			total := 0
			for v, names := range byVal {
				total += len(names)
				if len(names) > 1 {
					sort.Strings(names)
					dup = append(dup, strings.Join(names, " = ")+" = "+v)
				}
			}
			sort.Strings(dup)
			n++
			c.Check(len(dup) == 0, rel, core.NameOf(tn), "context key constants are pairwise distinct", tn.Pos(), fmt.Sprintf("%d keys", total),
				strings.Join(dup, "; ")+": a value stored under one key is found (with the wrong type) under the other")
		}
	}
	if n == 0 {
		c.Unknown("-", "-", "context key types", token.NoPos, "none found")
	}
}

var _ = constant.MakeBool

func init() {
	core.Register(&core.Rule{
		ID:    "R08.10",
		Title: "an error known to be non-nil does not vanish",
		Text: "In every hand-written function and function literal of the module whose last result is an error: on the branch where a local error variable is known to be non-nil (the true edge of `err != nil`, the false edge of `err == nil`), the variable is mentioned again " +
			"(returned, wrapped, passed to a call, copied, logged) before the function returns, unless that return certainly carries an error of its own. A `break` out of a loop followed by `return err` on a *different* variable of the same name " +
			"(an inner `:=` shadowing the result) answers nil for a failure: the request is sent, or the response written, as if the marshaler had succeeded.",
		Props: []string{"C07", "C08", "C04", "C11", "C01"},
		Floor: map[string]int{"v2": 100, "root": 90},
		Run:   runR0810,
	})
}

func runR0810(c *core.Ctx) {
	n := 0
	for _, p := range c.M.Roots {
		inf := p.TypesInfo
		rel := c.M.Rel(p.PkgPath)
		for _, fd := range c.M.FuncDecls(rel) {
			if fd.Body == nil || strings.HasSuffix(c.M.Fset.File(fd.Pos()).Name(), ".gr.go") || strings.HasSuffix(c.M.Fset.File(fd.Pos()).Name(), "_test.go") {
				continue
			}
			type body struct {
				body *ast.BlockStmt
				typ  *ast.FuncType
				name string
			}
			bodies := []body{{fd.Body, fd.Type, core.DeclName(fd)}}
			for i, fl := range core.AllFuncLits(fd.Body) {
				bodies = append(bodies, body{fl.Body, fl.Type, fmt.Sprintf("%s$%d", core.DeclName(fd), i+1)})
			}
			for _, b := range bodies {
				sig, _ := inf.Types[b.typ].Type.(*types.Signature)
				if sig == nil {
					if f, ok := inf.Defs[fd.Name].(*types.Func); ok && b.typ == fd.Type {
						sig = f.Type().(*types.Signature)
					}
				}
				// only functions that answer with an error can answer a failure as a success; a function without an error
				// result consumes its errors by what it does (writes a response, logs), which is not judged here
				if sig == nil || sig.Results().Len() == 0 || !core.IsErrorType(sig.Results().At(sig.Results().Len()-1).Type()) {
					continue
				}
				// candidates: error variables tested against nil in this body (nested literals excluded)
				idx := map[types.Object]int{}
				var vars []types.Object
				core.WalkNoFuncLit(b.body, func(x ast.Node) bool {
					be, ok := x.(*ast.BinaryExpr)
					if !ok || (be.Op != token.NEQ && be.Op != token.EQL) {
						return true
					}
					for _, pair := range [][2]ast.Expr{{be.X, be.Y}, {be.Y, be.X}} {
						if !core.IsNil(inf, pair[1]) {
							continue
						}
						if v, ok := core.ObjOf(inf, pair[0]).(*types.Var); ok && !v.IsField() && core.IsErrorType(v.Type()) && v.Pkg() != nil && v.Parent() != v.Pkg().Scope() {
							if _, seen := idx[v]; !seen && len(vars) < 6 {
								idx[v] = len(vars)
								vars = append(vars, v)
							}
						}
					}
					return true
				})
				if len(vars) == 0 {
					continue
				}
				n++
				namedRes := map[types.Object]bool{}
				if b.typ.Results != nil {
					for _, f := range b.typ.Results.List {
						for _, id := range f.Names {
							namedRes[inf.Defs[id]] = true
						}
					}
				}
				par := core.Parents(b.body)
				mentions := func(x ast.Node) int {
					mask := 0
					lhs := map[*ast.Ident]bool{}
					if as, ok := x.(*ast.AssignStmt); ok {
						for _, l := range as.Lhs {
							if id, ok := core.Unparen(l).(*ast.Ident); ok {
								lhs[id] = true
							}
						}
					}
					ast.Inspect(x, func(y ast.Node) bool {
						if id, ok := y.(*ast.Ident); ok && !lhs[id] {
							if i, ok := idx[inf.Uses[id]]; ok {
								mask |= 1 << i
							}
						}
						return true
					})
					return mask
				}
				lost := map[token.Pos]string{}
				core.NewFlow(c.M, inf, b.body).Run(&core.Automaton{
					AtEnd: true,
					Node: func(st int, x ast.Node) int {
						if x == nil {
							return st
						}
						// a condition that only tests the variable against nil is not a use of the error
						if e, ok := x.(ast.Expr); ok {
							if be, ok := core.Unparen(e).(*ast.BinaryExpr); ok && (be.Op == token.NEQ || be.Op == token.EQL) && (core.IsNil(inf, be.X) || core.IsNil(inf, be.Y)) {
								return st
							}
						}
						st &^= mentions(x)
						if as, ok := x.(*ast.AssignStmt); ok {
							for _, l := range as.Lhs {
								if i, ok := idx[core.ObjOf(inf, l)]; ok {
									st &^= 1 << i
								}
							}
						}
						if r, ok := x.(*ast.ReturnStmt); ok && st != 0 {
							for i, v := range vars {
								if st&(1<<i) == 0 {
									continue
								}
								if len(r.Results) == 0 && namedRes[v] {
									continue
								}
								if sig != nil && core.ErrorReturn(inf, par, sig, r) == "error" {
									continue
								}
								if len(r.Results) == 1 && alwaysFails(c, inf, r.Results[0]) {
									continue
								}
								// a package-level error variable (a sentinel) is an error of its own
								if len(r.Results) > 0 {
									if sv, ok := core.ObjOf(inf, r.Results[len(r.Results)-1]).(*types.Var); ok && sv.Pkg() != nil && sv.Parent() == sv.Pkg().Scope() && core.IsErrorType(sv.Type()) {
										continue
									}
								}
								lost[r.Pos()] = v.Name()
							}
							return 0
						}
						return st
					},
					Edge: func(st int, facts []core.Fact) (int, bool) {
						for _, f := range facts {
							if e, nonNil, ok := core.NilTest(inf, f); ok {
								if i, ok := idx[core.ObjOf(inf, e)]; ok {
									if nonNil {
										st |= 1 << i
									} else if st&(1<<i) != 0 {
										return st, false // known non-nil and untouched since: the nil edge is not taken
									}
								}
							}
						}
						return st, true
					},
				})
				var where []string
				for p, v := range lost {
					where = append(where, c.M.Position(p)+" ("+v+")")
				}
				sort.Strings(where)
				c.Check(len(where) == 0, rel, b.name, "a non-nil error is used before the function returns", b.body.Pos(), fmt.Sprintf("%d variable(s)", len(vars)),
					"the return at "+strings.Join(where, ", ")+" is reached on a path where the error is known to be non-nil and was not mentioned since: the failure is answered as a success")
			}
		}
	}
	if n == 0 {
		c.Unknown("-", "-", "functions that test an error", token.NoPos, "none found")
	}
}

// alwaysFails reports whether e is a call of a module function all of whose returns certainly carry a non-nil error
// (newErrorResponsef and the like): `return f(...)` then fails whatever the arguments.
func alwaysFails(c *core.Ctx, inf *types.Info, e ast.Expr) bool {
	call, ok := core.Unparen(e).(*ast.CallExpr)
	if !ok {
		return false
	}
	cf := core.Callee(inf, call)
	if cf == nil {
		return false
	}
	d := c.M.Decl(cf.Origin())
	p := c.M.PkgOf(cf)
	if d == nil || d.Body == nil || p == nil {
		return false
	}
	sig := cf.Type().(*types.Signature)
	par := core.Parents(d.Body)
	rets := core.ReturnsIn(d.Body)
	if len(rets) == 0 {
		return false
	}
	for _, r := range rets {
		if core.ErrorReturn(p.TypesInfo, par, sig, r) == "error" {
			continue
		}
		// a value of a concrete (non-interface) type converted to error is a non-nil interface whatever it points to
		if len(r.Results) == sig.Results().Len() && len(r.Results) > 0 {
			if tv, ok := p.TypesInfo.Types[r.Results[len(r.Results)-1]]; ok && !tv.IsNil() && tv.Type != nil && !types.IsInterface(tv.Type) {
				continue
			}
		}
		return false
	}
	return true
}

func init() {
	core.Register(&core.Rule{
		ID:    "R14.7",
		Title: "a deferred function does not erase the error being returned",
		Text: "In every hand-written function with a named error result: an assignment to that result inside a deferred function literal is made only where the result is known to be nil (`if err == nil { err = f.Close() }`), " +
			"or with a value that is known to be non-nil, or from the result itself (wrapping), or in a literal that calls recover() (panic conversion). `defer func() { err = body.Close() }()` replaces every error returned " +
			"after it with Close's nil: a malformed tunnelled request is then decoded `successfully` and reaches resource code. A synthetic positive control is analysed on every run.",
		Props: []string{"C14", "C08", "C04", "C20"},
		Floor: map[string]int{"v2": 1, "root": 1},
		Run:   runR147,
	})
}

// deferredResultOverwrites lists the assignments to a named error result made in deferred literals of the function that
// may replace an error with nil.
func deferredResultOverwrites(inf *types.Info, typ *ast.FuncType, body *ast.BlockStmt) (checked int, bad []ast.Node) {
	results := map[types.Object]bool{}
	if typ.Results != nil {
		for _, f := range typ.Results.List {
			for _, id := range f.Names {
				if o := inf.Defs[id]; o != nil && core.IsErrorType(o.Type()) {
					results[o] = true
				}
			}
		}
	}
	if len(results) == 0 {
		return 0, nil
	}
	core.WalkNoFuncLit(body, func(x ast.Node) bool {
		ds, ok := x.(*ast.DeferStmt)
		if !ok {
			return true
		}
		fl, ok := core.Unparen(ds.Call.Fun).(*ast.FuncLit)
		if !ok {
			return true
		}
		recovers := false
		for _, call := range core.CallsIn(fl.Body) {
			if id, ok := core.Unparen(call.Fun).(*ast.Ident); ok && id.Name == "recover" {
				if _, isBuiltin := inf.Uses[id].(*types.Builtin); isBuiltin {
					recovers = true
				}
			}
		}
		par := core.Parents(fl.Body)
		ast.Inspect(fl.Body, func(y ast.Node) bool {
			as, ok := y.(*ast.AssignStmt)
			if !ok {
				return true
			}
			for i, l := range as.Lhs {
				o := core.ObjOf(inf, l)
				if !results[o] {
					continue
				}
				checked++
				if recovers {
					continue
				}
				var rhs ast.Expr
				if len(as.Rhs) == len(as.Lhs) {
					rhs = as.Rhs[i]
				}
				if rhs != nil && (mentions(inf, rhs, o) || core.NonNilErrorExpr(inf, rhs)) {
					continue
				}
				if rhs != nil {
					if ro := core.ObjOf(inf, rhs); ro != nil && core.GuardedNonNil(inf, par, as, ro) {
						continue
					}
				}
				if core.GuardedByFact(inf, par, as, func(f core.Fact) bool {
					e, nonNil, ok := core.NilTest(inf, f)
					return ok && !nonNil && core.ObjOf(inf, e) == o
				}, o) {
					continue
				}
				bad = append(bad, as)
			}
			return true
		})
		return true
	})
	return checked, bad
}

func runR147(c *core.Ctx) {
	funcs := 0
	for _, p := range c.M.Roots {
		inf := p.TypesInfo
		rel := c.M.Rel(p.PkgPath)
		for _, fd := range c.M.FuncDecls(rel) {
			fname := c.M.Fset.File(fd.Pos()).Name()
			if fd.Body == nil || strings.HasSuffix(fname, ".gr.go") || strings.HasSuffix(fname, "_test.go") {
				continue
			}
			type body struct {
				typ  *ast.FuncType
				body *ast.BlockStmt
				name string
			}
			bodies := []body{{fd.Type, fd.Body, core.DeclName(fd)}}
			for i, fl := range core.AllFuncLits(fd.Body) {
				bodies = append(bodies, body{fl.Type, fl.Body, fmt.Sprintf("%s$%d", core.DeclName(fd), i+1)})
			}
			for _, b := range bodies {
				n, bad := deferredResultOverwrites(inf, b.typ, b.body)
				if n == 0 {
					continue
				}
				funcs++
				where := ""
				if len(bad) > 0 {
					where = c.M.Position(bad[0].Pos())
				}
				c.Check(len(bad) == 0, rel, b.name, "deferred assignments to the error result keep an error that is being returned", b.body.Pos(), fmt.Sprintf("%d assignment(s)", n),
					"the deferred assignment at "+where+" replaces whatever error the function was returning (possibly with nil)")
			}
		}
	}
	// positive control
	ctl := `package ctl
type closer interface{ Close() error }
func decode(b closer, fail error) (err error) {
	defer func() { err = b.Close() }()
	if fail != nil { return fail }
	return nil
}`
	ok := false
	if f, inf := parseControl(c, ctl); f != nil {
		for _, d := range f.Decls {
			if fd, isF := d.(*ast.FuncDecl); isF && fd.Body != nil {
				if _, bad := deferredResultOverwrites(inf, fd.Type, fd.Body); len(bad) == 1 {
					ok = true
				}
			}
		}
	}
	if ok {
		c.OK("-", "-", "positive control: a deferred `err = b.Close()` is recognised", 0, "")
	} else {
		c.Unknown("-", "-", "positive control", 0, "the analysis no longer recognises a deferred overwrite of the error result")
	}
	_ = funcs
}

// parseControl parses and type-checks a tiny synthetic package (standard-library imports only) used as a positive control.
func parseControl(c *core.Ctx, src string) (*ast.File, *types.Info) {
	f, err := parser.ParseFile(c.M.Fset, "control.go", src, 0)
	if err != nil {
		return nil, nil
	}
	inf := &types.Info{Types: map[ast.Expr]types.TypeAndValue{}, Defs: map[*ast.Ident]types.Object{}, Uses: map[*ast.Ident]types.Object{}, Selections: map[*ast.SelectorExpr]*types.Selection{}, Scopes: map[ast.Node]*types.Scope{}}
	if _, err := (&types.Config{Importer: importer.ForCompiler(c.M.Fset, "source", nil)}).Check("ctl", c.M.Fset, []*ast.File{f}, inf); err != nil {
		return nil, nil
	}
	return f, inf
}

func init() {
	core.Register(&core.Rule{
		ID:    "R16.12",
		Title: "decoded integers are range-checked, never truncated",
		Text: "In restlicodec every conversion of a non-constant integer to a narrower integer type (int64 / int -> int32, …) converts a value obtained from strconv.ParseInt / ParseUint with a constant bitSize no larger than the target, or one bounded by an enclosing comparison with a constant that fits: " +
			"an out-of-range key or field is then an error. `int32(v64)` of a 64-bit parse reduces the text modulo 2^32, so a response key such as 4294967297 is filed under the caller's key 1.",
		Props: []string{"C16", "C04", "C01", "C03"},
		Floor: map[string]int{"v2": 1, "root": 1},
		Run:   runR1612,
	})
}

func intWidth(t types.Type) (bits int, isInt bool) {
	b, ok := t.Underlying().(*types.Basic)
	if !ok || b.Info()&types.IsInteger == 0 {
		return 0, false
	}
	switch b.Kind() {
	case types.Int8, types.Uint8:
		return 8, true
	case types.Int16, types.Uint16:
		return 16, true
	case types.Int32, types.Uint32:
		return 32, true
	default:
		return 64, true
	}
}

func runR1612(c *core.Ctx) {
	const rel = "restlicodec"
	inf := info(c, rel)
	n := 0
	for _, fd := range c.M.FuncDecls(rel) {
		if fd.Body == nil || strings.HasSuffix(c.M.Fset.File(fd.Pos()).Name(), "_test.go") {
			continue
		}
		// single definitions of locals
		defs := map[types.Object][]ast.Expr{}
		ast.Inspect(fd.Body, func(x ast.Node) bool {
			if as, ok := x.(*ast.AssignStmt); ok {
				for i, l := range as.Lhs {
					if o := core.ObjOf(inf, l); o != nil {
						if len(as.Rhs) == len(as.Lhs) {
							defs[o] = append(defs[o], as.Rhs[i])
						} else if len(as.Rhs) == 1 && i == 0 {
							defs[o] = append(defs[o], as.Rhs[0])
						} else {
							defs[o] = append(defs[o], nil)
						}
					}
				}
			}
			return true
		})
		ast.Inspect(fd.Body, func(x ast.Node) bool {
			call, ok := x.(*ast.CallExpr)
			if !ok || len(call.Args) != 1 {
				return true
			}
			tv, isConv := inf.Types[call.Fun]
			if !isConv || !tv.IsType() {
				return true
			}
			to, ok1 := intWidth(tv.Type)
			atv := inf.Types[call.Args[0]]
			from, ok2 := intWidth(atv.Type)
			if !ok1 || !ok2 || atv.Value != nil || to >= from {
				return true
			}
			n++
			okConv, why := false, "the operand is not the result of a parse bounded to the target width"
			arg := core.Unparen(call.Args[0])
			if o := core.ObjOf(inf, arg); o != nil && len(defs[o]) >= 1 {
				// every definition of the operand is a bounded parse or a constant (the zero returned next to an error)
				all, parses := true, 0
				for _, d := range defs[o] {
					if d == nil {
						all = false
						continue
					}
					if tv, ok := inf.Types[d]; ok && tv.Value != nil {
						continue
					}
					bounded := false
					if pc, ok := core.Unparen(d).(*ast.CallExpr); ok {
						if pf := core.Callee(inf, pc); pf != nil && (core.IsFunc(pf, "strconv", "ParseInt") || core.IsFunc(pf, "strconv", "ParseUint")) && len(pc.Args) == 3 {
							if cv := core.ConstOf(inf, pc.Args[2]); cv != nil {
								if bs, exact := constant.Int64Val(cv); exact && bs > 0 && int(bs) <= to {
									bounded = true
									parses++
								} else {
									why = fmt.Sprintf("the value was parsed with bitSize %s, wider than the %d-bit target", cv.ExactString(), to)
								}
							}
						}
					}
					if !bounded {
						all = false
					}
				}
				okConv = all && parses > 0
			}
			if !okConv {
				// an explicit upper bound on the operand: `if c > 0xff { return … }` before, or `c <= 0xff` around, the conversion
				if o := core.ObjOf(inf, arg); o != nil {
					limit := constant.Shift(constant.MakeInt64(1), token.SHL, uint(to))
					okConv = core.GuardedByFact(inf, core.Parents(fd.Body), call, func(f core.Fact) bool {
						be, ok := core.Unparen(f.Expr).(*ast.BinaryExpr)
						if !ok || core.ObjOf(inf, be.X) != o {
							return false
						}
						k := core.ConstOf(inf, be.Y)
						if k == nil || !constant.Compare(k, token.LSS, limit) {
							return false
						}
						switch be.Op {
						case token.GTR, token.GEQ:
							return !f.Val
						case token.LEQ, token.LSS:
							return f.Val
						}
						return false
					}, o)
				}
			}
			c.Check(okConv, rel, core.DeclName(fd), fmt.Sprintf("narrowing conversion #%d is preceded by a range check", ordinal(fd, call)), call.Pos(), "",
				core.ExprString(call)+" truncates: "+why)
			return true
		})
	}
	if n == 0 {
		c.Unknown(rel, "-", "narrowing integer conversions", token.NoPos, "none found")
	}
}

func init() {
	core.Register(&core.Rule{
		ID:    "R03.6",
		Title: "the patch checker's section flags only accumulate",
		Text: "PartialUpdateFieldChecker.CheckField is called once per field with one shared checker; MarshalRestLiPatch writes `$delete` / `$set` only if HasDeletes / HasSets is set. Every store to these two fields therefore stores the constant true " +
			"or an expression that mentions the field itself (`c.HasSets = c.HasSets || …`): a plain `c.HasDeletes, c.HasSets = isDeleteSet, isSetSet` keeps only what the last field needed and silently drops the other section.",
		Props:   []string{"C03", "C11", "C01"},
		Modules: []string{"v2"},
		Floor:   map[string]int{"v2": 2},
		Run:     runR036,
	})
	core.Register(&core.Rule{
		ID:    "R08.11",
		Title: "error responses are recognised the same way everywhere",
		Text: "The server decides in several places whether an error is a Rest.li *ErrorResponse (registerMethod, newErrorResponsef, ServeHTTP's response writer). All of them use a plain type assertion on the error; none uses errors.As / errors.Is: " +
			"a wrapped ErrorResponse accepted upstream by errors.As is returned still wrapped, is not recognised by the writer and goes out as a text/plain 500 without the error header.",
		Props: []string{"C08", "C02"},
		Floor: map[string]int{"v2": 1, "root": 1}, // helpers and type switches may merge the three sites of today
		Run:   runR0811,
	})
	core.Register(&core.Rule{
		ID:    "R10.10",
		Title: "collections are equal only after their lengths were compared",
		Text: "In restli/equals every function that takes two slices (or two maps) of one type and returns bool answers the constant true only on paths where len(left) == len(right) has been established; delegating returns (a call given both operands) are checked in the callee. " +
			"A shortcut placed before the length test (same first element, same backing array) makes a value equal to its own truncation, while their hashes differ.",
		Props: []string{"C10"},
		Floor: map[string]int{"v2": 1, "root": 1},
		Run:   runR1010,
	})
	core.Register(&core.Rule{
		ID:    "R16.13",
		Title: "the located key is the caller's key, not the probe",
		Text: "genericBatchKeySet.LocateOriginalKey never returns (or assigns to its first result) its own parameter: complex keys are pointers, response maps are keyed by the pointer the caller passed to AddKey, " +
			"so handing back the freshly decoded probe files every entry under a key the caller cannot look up.",
		Props: []string{"C16", "C02"},
		Floor: map[string]int{"v2": 1, "root": 1},
		Run:   runR1613,
	})
	core.Register(&core.Rule{
		ID:    "R13.6",
		Title: "a zero value is never taken for an absent one",
		Text: "restlicodec and restli call reflect.Value.IsZero nowhere: presence (of a value in an untyped document, of a params object) is decided by validity / nil-ness only; a required parameter that is 0, false or \"\" is still encoded, so an all-zero params struct is not `no params`. Skipping map entries whose value is 0, false or \"\" makes the generated decoder apply the schema default over a value that was sent. " +
			"(Expected count zero; a synthetic positive control is analysed on every run.)",
		Props: []string{"C13", "C01", "C06", "C15", "C02"},
		Floor: map[string]int{"v2": 1, "root": 1},
		Run:   runR136,
	})
}

func runR036(c *core.Ctx) {
	const rel = "restli/patch"
	inf := info(c, rel)
	tn, _ := mustObj(c, rel, "PartialUpdateFieldChecker").(*types.TypeName)
	n := 0
	for _, fd := range c.M.FuncDecls(rel) {
		if fd.Body == nil {
			continue
		}
		ast.Inspect(fd.Body, func(x ast.Node) bool {
			as, ok := x.(*ast.AssignStmt)
			if !ok {
				return true
			}
			for i, l := range as.Lhs {
				for _, fname := range []string{"HasDeletes", "HasSets"} {
					if _, isF := fieldNamed(inf, l, tn, fname); !isF {
						continue
					}
					n++
					okStore := false
					if len(as.Rhs) == len(as.Lhs) {
						r := as.Rhs[i]
						if cv := core.ConstOf(inf, r); cv != nil && cv.Kind() == constant.Bool && constant.BoolVal(cv) {
							okStore = true
						}
						ast.Inspect(r, func(y ast.Node) bool {
							if e, ok := y.(ast.Expr); ok {
								if _, same := fieldNamed(inf, e, tn, fname); same {
									okStore = true
								}
							}
							return true
						})
					}
					c.Check(okStore, rel, core.DeclName(fd), fmt.Sprintf("store to %s #%d only raises the flag", fname, ordinal(fd, as)), as.Pos(), "",
						core.ExprString(l)+" is overwritten with a value that may be false: a section needed by an earlier field is dropped from the patch")
				}
			}
			return true
		})
	}
	if n == 0 {
		c.Unknown(rel, "-", "stores to HasDeletes / HasSets", token.NoPos, "none found")
	}
}

func runR0811(c *core.Ctx) {
	const rel = "restli"
	inf := info(c, rel)
	isErrRes := func(t types.Type) bool {
		p, ok := t.(*types.Pointer)
		if !ok {
			return false
		}
		nn := namedOf(p.Elem())
		return nn != nil && core.NameOf(nn.Obj()) == "ErrorResponse"
	}
	n := 0
	for _, fd := range c.M.FuncDecls(rel) {
		if fd.Body == nil || strings.HasSuffix(c.M.Fset.File(fd.Pos()).Name(), "_test.go") {
			continue
		}
		ast.Inspect(fd.Body, func(x ast.Node) bool {
			switch y := x.(type) {
			case *ast.TypeAssertExpr:
				if y.Type != nil && isErrRes(inf.Types[y.Type].Type) && core.IsErrorType(inf.Types[y.X].Type) {
					n++
					c.OK(rel, core.DeclName(fd), fmt.Sprintf("ErrorResponse test #%d is a plain type assertion", ordinal(fd, y)), y.Pos(), "")
				}
			case *ast.TypeSwitchStmt:
				if subj := core.TypeSwitchSubject(y); subj != nil && core.IsErrorType(inf.Types[subj].Type) {
					for _, cl := range y.Body.List {
						for _, te := range cl.(*ast.CaseClause).List {
							if isErrRes(inf.Types[te].Type) {
								n++
								c.OK(rel, core.DeclName(fd), fmt.Sprintf("ErrorResponse test #%d is a plain type assertion", ordinal(fd, cl)), cl.Pos(), "type switch")
							}
						}
					}
				}
			case *ast.CallExpr:
				cf := core.Callee(inf, y)
				if (core.IsFunc(cf, "errors", "As") || core.IsFunc(cf, "errors", "Is")) && len(y.Args) == 2 {
					t := inf.Types[y.Args[1]].Type
					if p, ok := t.(*types.Pointer); ok && core.IsFunc(cf, "errors", "As") {
						t = p.Elem()
					}
					if isErrRes(t) {
						n++
						c.Bad(rel, core.DeclName(fd), fmt.Sprintf("ErrorResponse test #%d is a plain type assertion", ordinal(fd, y)), y.Pos(),
							core.ExprString(y)+" also accepts a wrapped ErrorResponse, which the response writer's type assertion does not recognise: the answer is a text/plain 500 without the error header")
					}
				}
			}
			return true
		})
	}
	if n == 0 {
		c.Unknown(rel, "-", "ErrorResponse classification sites", token.NoPos, "none found")
	}
}

func runR1010(c *core.Ctx) {
	const rel = "restli/equals"
	inf := info(c, rel)
	n := 0
	for _, fd := range c.M.FuncDecls(rel) {
		if fd.Body == nil || fd.Type.Results == nil || len(fd.Type.Results.List) != 1 {
			continue
		}
		var ps []types.Object
		for _, f := range fd.Type.Params.List {
			for _, id := range f.Names {
				ps = append(ps, inf.Defs[id])
			}
		}
		if len(ps) < 2 || ps[0] == nil || ps[1] == nil || !types.Identical(ps[0].Type(), ps[1].Type()) {
			continue
		}
		switch ps[0].Type().Underlying().(type) {
		case *types.Slice, *types.Map:
		default:
			continue
		}
		a, b := ps[0], ps[1]
		isLen := func(e ast.Expr, o types.Object) bool {
			call, ok := core.Unparen(e).(*ast.CallExpr)
			if !ok || len(call.Args) != 1 {
				return false
			}
			id, ok := core.Unparen(call.Fun).(*ast.Ident)
			return ok && id.Name == "len" && core.ObjOf(inf, call.Args[0]) == o
		}
		n++
		var bad []string
		core.NewFlow(c.M, inf, fd.Body).Run(&core.Automaton{
			Node: func(st int, x ast.Node) int {
				if r, ok := x.(*ast.ReturnStmt); ok && st == 0 && len(r.Results) == 1 {
					if cv := core.ConstOf(inf, r.Results[0]); cv != nil && cv.Kind() == constant.Bool && constant.BoolVal(cv) {
						bad = append(bad, c.M.Position(r.Pos()))
					}
				}
				return st
			},
			Edge: func(st int, facts []core.Fact) (int, bool) {
				for _, f := range facts {
					be, ok := core.Unparen(f.Expr).(*ast.BinaryExpr)
					if !ok || (be.Op != token.EQL && be.Op != token.NEQ) {
						continue
					}
					if (isLen(be.X, a) && isLen(be.Y, b)) || (isLen(be.X, b) && isLen(be.Y, a)) {
						if (be.Op == token.EQL) == f.Val {
							st = 1
						}
					}
				}
				return st, true
			},
		})
		sort.Strings(bad)
		c.Check(len(bad) == 0, rel, core.DeclName(fd), "`return true` only after the lengths were found equal", fd.Pos(), "",
			"true is returned at "+strings.Join(bad, ", ")+" on a path where len("+a.Name()+") == len("+b.Name()+") has not been established")
	}
	if n == 0 {
		c.Unknown(rel, "-", "collection comparators", token.NoPos, "none found")
	}
}

func runR1613(c *core.Ctx) {
	const rel = "restli/batchkeyset"
	inf := info(c, rel)
	_, fd := mustDecl(c, rel, "(*genericBatchKeySet).LocateOriginalKey")
	var param, res types.Object
	if len(fd.Type.Params.List) > 0 && len(fd.Type.Params.List[0].Names) > 0 {
		param = inf.Defs[fd.Type.Params.List[0].Names[0]]
	}
	if fd.Type.Results != nil && len(fd.Type.Results.List) > 0 && len(fd.Type.Results.List[0].Names) > 0 {
		res = inf.Defs[fd.Type.Results.List[0].Names[0]]
	}
	var bad []string
	ast.Inspect(fd.Body, func(x ast.Node) bool {
		switch y := x.(type) {
		case *ast.ReturnStmt:
			if len(y.Results) >= 1 && param != nil && core.ObjOf(inf, y.Results[0]) == param {
				bad = append(bad, c.M.Position(y.Pos()))
			}
		case *ast.AssignStmt:
			for i, l := range y.Lhs {
				if res != nil && core.ObjOf(inf, l) == res && len(y.Rhs) == len(y.Lhs) && core.ObjOf(inf, y.Rhs[i]) == param {
					bad = append(bad, c.M.Position(y.Pos()))
				}
			}
		}
		return true
	})
	c.Check(param != nil && len(bad) == 0, rel, "(*genericBatchKeySet).LocateOriginalKey", "the probe is never handed back as the original key", fd.Pos(), "",
		"the parameter is returned as the original key at "+strings.Join(bad, ", ")+": pointer-typed keys lose their identity")
}

func forbiddenIsZero(inf *types.Info, body ast.Node) []ast.Node {
	var out []ast.Node
	for _, call := range core.CallsIn(body) {
		if cf := core.Callee(inf, call); cf != nil && core.IsMethod(cf, "reflect", "Value", "IsZero") {
			out = append(out, call)
		}
	}
	return out
}

func runR136(c *core.Ctx) {
	funcs := 0
	for _, rel := range []string{"restlicodec", "restli"} {
		if c.M.Pkg(rel) == nil {
			continue
		}
		funcs += runR136pkg(c, rel)
	}
	if funcs == 0 {
		c.Unknown("restlicodec", "-", "functions using reflect", token.NoPos, "none found")
	}
	ctl := `package ctl
import "reflect"
func skip(v interface{}) bool { e := reflect.ValueOf(v); return !e.IsValid() || e.IsZero() }`
	if f, cinf := parseControl(c, ctl); f != nil && len(forbiddenIsZero(cinf, f)) == 1 {
		c.OK("-", "-", "positive control: a reflect.Value.IsZero call is recognised", 0, "")
	} else {
		c.Unknown("-", "-", "positive control", 0, "the analysis no longer recognises a reflect.Value.IsZero call")
	}
}

func runR136pkg(c *core.Ctx, rel string) int {
	inf := info(c, rel)
	funcs := 0
	for _, fd := range c.M.FuncDecls(rel) {
		if fd.Body == nil || strings.HasSuffix(c.M.Fset.File(fd.Pos()).Name(), "_test.go") {
			continue
		}
		usesReflect := false
		ast.Inspect(fd.Body, func(x ast.Node) bool {
			if id, ok := x.(*ast.Ident); ok {
				if pn, ok := inf.Uses[id].(*types.PkgName); ok && pn.Imported().Path() == "reflect" {
					usesReflect = true
				}
			}
			return !usesReflect
		})
		if !usesReflect {
			continue
		}
		funcs++
		bad := forbiddenIsZero(inf, fd.Body)
		where := ""
		if len(bad) > 0 {
			where = c.M.Position(bad[0].Pos())
		}
		c.Check(len(bad) == 0, rel, core.DeclName(fd), "no reflect.Value.IsZero", fd.Pos(), "", "IsZero at "+where+": a present 0 / false / \"\" is treated as absent and the default is applied over it")
	}
	return funcs
}

func init() {
	core.Register(&core.Rule{
		ID:    "R01.12",
		Title: "reader constructors read the input they were given",
		Text: "In every restlicodec constructor New…Reader… (ParseQueryParams is a scanner of its own and is covered by R04 / R14) the text / byte parameter is never reassigned and is used only as it is: handed to a function of the module, converted between string and []byte, sliced by the module's own scanners, " +
			"or stored in the reader. No function of strings / bytes / unicode is applied to it on the way: the header flavour of ROR2 leaves whitespace unescaped, so a `TrimSpace` drops characters of a bare string value.",
		Props: []string{"C01", "C03", "C02"},
		Floor: map[string]int{"v2": 4, "root": 4},
		Run:   runR0112,
	})
	core.Register(&core.Rule{
		ID:    "R17.13",
		Title: "the client never adopts a header map it was handed",
		Text: "In the restli package no assignment to the Header field of an *http.Request or *http.Response stores a map obtained from elsewhere (a parameter, a callback's result, a field): only make, a composite literal, or a Clone() may be stored. " +
			"The map returned by an ExtraRequestHeaders callback is the caller's (typically one static map for all requests): once it is the request's own header map every request writes X-RestLi-Method and Content-Type into it, concurrently. " +
			"(Expected count zero; a synthetic positive control is analysed on every run.)",
		Props: []string{"C17", "C09", "C02"},
		Floor: map[string]int{"v2": 1, "root": 1},
		Run:   runR1713,
	})
	core.Register(&core.Rule{
		ID:    "R06.10",
		Title: "a map the caller consumes is the caller's own",
		Text: "In restlicodec and restli: whenever a local map obtained from a call of a module function is written by the caller (`delete(m, k)`, `m[k] = v`), every return of that function yields nil or a map made inside the call (make / composite literal held in a local that is not stored anywhere else). " +
			"readRecord ticks required fields off by deleting them from the map RequiredFields.toMap() returns: a cached map would make every field required only once per process.",
		Props: []string{"C06", "C16", "C17"},
		Floor: map[string]int{"v2": 2, "root": 1},
		Run:   runR0610,
	})
	core.Register(&core.Rule{
		ID:    "R05.9",
		Title: "every Handler() call makes its own copy of the server",
		Text: "rootNode.Handler returns, on every path, a value created by this very call (a composite literal / new held in a local of the function body itself, not inside a function literal, not a field): " +
			"a snapshot memoised in the server (sync.Once, a cached field) is handed to every later caller, so resources registered between two Handler() / AddToMux calls are missing from the second handler.",
		Props: []string{"C05", "C17"},
		Floor: map[string]int{"v2": 1, "root": 1},
		Run:   runR059,
	})
	core.Register(&core.Rule{
		ID:    "R19.6",
		Title: "each announcement is applied to the snapshot that is current",
		Text: "In Client.waitForUriUpdates the snapshot handed to handleUriUpdate is obtained inside the loop iteration that handles the event (loaded from the map there), or — if it is a variable that lives across iterations — " +
			"is reassigned in the loop with the value that is stored. A snapshot loaded once before the loop makes every event apply to the initial set: earlier adds are lost and a delete is undone by the next event.",
		Props:   []string{"C19"},
		Modules: []string{"v2"},
		Floor:   map[string]int{"v2": 1},
		Run:     runR196,
	})
}

func runR0112(c *core.Ctx) {
	const rel = "restlicodec"
	inf := info(c, rel)
	n := 0
	for _, fd := range c.M.FuncDecls(rel) {
		name := core.NameOf(inf.Defs[fd.Name])
		if fd.Body == nil || fd.Recv != nil || !(strings.HasPrefix(name, "New") && strings.Contains(name, "Reader")) {
			continue
		}
		if len(fd.Type.Params.List) == 0 || len(fd.Type.Params.List[0].Names) == 0 {
			continue
		}
		p := inf.Defs[fd.Type.Params.List[0].Names[0]]
		if p == nil {
			continue
		}
		switch t := p.Type().Underlying().(type) {
		case *types.Basic:
			if t.Info()&types.IsString == 0 {
				continue
			}
		case *types.Slice:
			if b, ok := t.Elem().Underlying().(*types.Basic); !ok || b.Kind() != types.Uint8 {
				continue
			}
		default:
			continue
		}
		n++
		var bad []string
		ast.Inspect(fd.Body, func(x ast.Node) bool {
			switch y := x.(type) {
			case *ast.AssignStmt:
				for _, l := range y.Lhs {
					if core.ObjOf(inf, l) == p {
						bad = append(bad, c.M.Position(y.Pos())+": "+p.Name()+" is reassigned")
					}
				}
			case *ast.CallExpr:
				cf := core.Callee(inf, y)
				if cf == nil || cf.Pkg() == nil || c.M.PkgOf(cf) != nil {
					return true
				}
				for _, a := range y.Args {
					if mentions(inf, a, p) {
						switch cf.Pkg().Path() {
						case "strings", "bytes", "unicode", "unicode/utf8", "net/url", "path", "regexp":
							if cf.Name() == "NewReader" || cf.Name() == "NewBuffer" || cf.Name() == "NewBufferString" {
								continue
							}
							bad = append(bad, c.M.Position(y.Pos())+": "+cf.Pkg().Name()+"."+cf.Name()+" is applied to "+p.Name())
						}
					}
				}
			}
			return true
		})
		c.Check(len(bad) == 0, rel, core.DeclName(fd), "the input reaches the reader as given", fd.Pos(), "", strings.Join(bad, "; ")+" — characters of the input are dropped or rewritten before the reader sees them")
	}
	if n == 0 {
		c.Unknown(rel, "-", "reader constructors", token.NoPos, "none found")
	}
}

// adoptedHeaderMaps lists the assignments `X.Header = e` to an http.Request / http.Response whose value is not a map
// created on the spot.
func adoptedHeaderMaps(inf *types.Info, body ast.Node) []ast.Node {
	var out []ast.Node
	ast.Inspect(body, func(x ast.Node) bool {
		as, ok := x.(*ast.AssignStmt)
		if !ok || len(as.Lhs) != len(as.Rhs) {
			return true
		}
		for i, l := range as.Lhs {
			sel, ok := core.Unparen(l).(*ast.SelectorExpr)
			if !ok || sel.Sel.Name != "Header" {
				continue
			}
			fv, ok := core.ObjOf(inf, sel).(*types.Var)
			if !ok || !fv.IsField() || fv.Pkg() == nil || fv.Pkg().Path() != "net/http" {
				continue
			}
			fresh := false
			switch r := core.Unparen(as.Rhs[i]).(type) {
			case *ast.CompositeLit:
				fresh = true
			case *ast.CallExpr:
				if id, ok := core.Unparen(r.Fun).(*ast.Ident); ok && id.Name == "make" {
					fresh = true
				}
				if cf := core.Callee(inf, r); cf != nil && cf.Name() == "Clone" {
					fresh = true
				}
			}
			if !fresh {
				// a local that only ever holds maps made on the spot
				if id, ok := core.Unparen(as.Rhs[i]).(*ast.Ident); ok {
					if v, ok := core.ObjOf(inf, id).(*types.Var); ok && !v.IsField() {
						defs, allFresh := 0, true
						ast.Inspect(body, func(y ast.Node) bool {
							if as2, ok := y.(*ast.AssignStmt); ok && len(as2.Lhs) == len(as2.Rhs) {
								for k, l2 := range as2.Lhs {
									if core.ObjOf(inf, l2) != v {
										continue
									}
									defs++
									switch r2 := core.Unparen(as2.Rhs[k]).(type) {
									case *ast.CompositeLit:
									case *ast.CallExpr:
										id2, isId := core.Unparen(r2.Fun).(*ast.Ident)
										cf2 := core.Callee(inf, r2)
										if !(isId && id2.Name == "make") && !(cf2 != nil && cf2.Name() == "Clone") {
											allFresh = false
										}
									default:
										allFresh = false
									}
								}
							}
							return true
						})
						fresh = defs > 0 && allFresh
					}
				}
			}
			if !fresh {
				out = append(out, as)
			}
		}
		return true
	})
	return out
}

func runR1713(c *core.Ctx) {
	const rel = "restli"
	inf := info(c, rel)
	n := 0
	for _, fd := range c.M.FuncDecls(rel) {
		if fd.Body == nil || strings.HasSuffix(c.M.Fset.File(fd.Pos()).Name(), "_test.go") {
			continue
		}
		touches := false
		ast.Inspect(fd.Body, func(x ast.Node) bool {
			if sel, ok := x.(*ast.SelectorExpr); ok && sel.Sel.Name == "Header" {
				if fv, ok := core.ObjOf(inf, sel).(*types.Var); ok && fv.IsField() && fv.Pkg() != nil && fv.Pkg().Path() == "net/http" {
					touches = true
				}
			}
			return !touches
		})
		if !touches {
			continue
		}
		n++
		bad := adoptedHeaderMaps(inf, fd.Body)
		where := ""
		if len(bad) > 0 {
			where = c.M.Position(bad[0].Pos())
		}
		c.Check(len(bad) == 0, rel, core.DeclName(fd), "header maps are never adopted from elsewhere", fd.Pos(), "",
			"the assignment at "+where+" makes a map obtained from elsewhere the message's own header map: later Set / Add calls write into the other owner's map")
	}
	if n == 0 {
		c.Unknown(rel, "-", "functions touching http headers", token.NoPos, "none found")
	}
	ctl := `package ctl
import "net/http"
func build(req *http.Request, extras func() http.Header) { if h := extras(); h != nil { req.Header = h }; req.Header.Set("A", "b") }`
	if f, cinf := parseControl(c, ctl); f != nil && len(adoptedHeaderMaps(cinf, f)) == 1 {
		c.OK("-", "-", "positive control: an adopted header map is recognised", 0, "")
	} else {
		c.Unknown("-", "-", "positive control", 0, "the analysis no longer recognises `req.Header = <foreign map>`")
	}
}

// returnsOwnMap reports whether every return of fd yields nil or a map made in the call and kept nowhere else.
func returnsOwnMap(inf *types.Info, fd *ast.FuncDecl) (bool, string) {
	fresh := map[types.Object]bool{}
	escaped := map[types.Object]string{}
	ast.Inspect(fd.Body, func(x ast.Node) bool {
		as, ok := x.(*ast.AssignStmt)
		if !ok {
			return true
		}
		for i, l := range as.Lhs {
			if len(as.Rhs) != len(as.Lhs) {
				continue
			}
			r := core.Unparen(as.Rhs[i])
			if id, ok := core.Unparen(l).(*ast.Ident); ok {
				o := core.ObjOf(inf, id)
				isFresh := false
				switch rr := r.(type) {
				case *ast.CompositeLit:
					isFresh = true
				case *ast.CallExpr:
					if f, ok := core.Unparen(rr.Fun).(*ast.Ident); ok && f.Name == "make" {
						isFresh = true
					}
				}
				if isFresh && o != nil {
					fresh[o] = true // `m := make(…)` and `var m T; m = make(…)` alike; any other assignment disqualifies it below
				} else if o != nil {
					if _, isMap := o.Type().Underlying().(*types.Map); isMap && !core.IsNil(inf, r) {
						escaped[o] = "is assigned " + core.ExprString(r)
					}
				}
				continue
			}
			// a store of a local into a field / element / through a pointer
			if ro := core.ObjOf(inf, r); ro != nil {
				escaped[ro] = "is also stored in " + core.ExprString(l)
			}
		}
		return true
	})
	for _, ret := range core.ReturnsIn(fd.Body) {
		if len(ret.Results) == 0 {
			return false, "a bare return"
		}
		e := core.Unparen(ret.Results[0])
		if core.IsNil(inf, e) {
			continue
		}
		switch rr := e.(type) {
		case *ast.CompositeLit:
			continue
		case *ast.CallExpr:
			if f, ok := core.Unparen(rr.Fun).(*ast.Ident); ok && f.Name == "make" {
				continue
			}
		}
		o := core.ObjOf(inf, e)
		if o == nil || !fresh[o] {
			return false, core.ExprString(e) + " is not a map made in this call"
		}
		if why, esc := escaped[o]; esc {
			return false, core.ExprString(e) + " " + why
		}
	}
	return true, ""
}

func runR0610(c *core.Ctx) {
	n := 0
	for _, rel := range []string{"restlicodec", "restli"} {
		p := c.M.Pkg(rel)
		if p == nil {
			continue
		}
		inf := p.TypesInfo
		for _, fd := range c.M.FuncDecls(rel) {
			if fd.Body == nil || strings.HasSuffix(c.M.Fset.File(fd.Pos()).Name(), "_test.go") {
				continue
			}
			// locals holding the map result of a module call
			src := map[types.Object]*ast.CallExpr{}
			ast.Inspect(fd.Body, func(x ast.Node) bool {
				as, ok := x.(*ast.AssignStmt)
				if !ok || len(as.Lhs) != 1 || len(as.Rhs) != 1 {
					return true
				}
				call, ok := core.Unparen(as.Rhs[0]).(*ast.CallExpr)
				if !ok {
					return true
				}
				o := core.ObjOf(inf, as.Lhs[0])
				if o == nil {
					return true
				}
				if _, isMap := o.Type().Underlying().(*types.Map); !isMap {
					return true
				}
				if cf := core.Callee(inf, call); cf != nil && c.M.Decl(cf.Origin()) != nil {
					src[o] = call
				}
				return true
			})
			if len(src) == 0 {
				continue
			}
			written := map[types.Object]bool{}
			ast.Inspect(fd.Body, func(x ast.Node) bool {
				switch y := x.(type) {
				case *ast.CallExpr:
					if id, ok := core.Unparen(y.Fun).(*ast.Ident); ok && (id.Name == "delete" || id.Name == "clear") && len(y.Args) >= 1 {
						if o := core.ObjOf(inf, y.Args[0]); src[o] != nil {
							written[o] = true
						}
					}
				case *ast.AssignStmt:
					for _, l := range y.Lhs {
						if ix, ok := core.Unparen(l).(*ast.IndexExpr); ok {
							if o := core.ObjOf(inf, ix.X); src[o] != nil {
								written[o] = true
							}
						}
					}
				}
				return true
			})
			var objs []types.Object
			for o := range written {
				objs = append(objs, o)
			}
			sort.Slice(objs, func(i, j int) bool { return objs[i].Pos() < objs[j].Pos() })
			for _, o := range objs {
				cf := core.Callee(inf, src[o])
				d := c.M.Decl(cf.Origin())
				n++
				ok, why := returnsOwnMap(c.M.PkgOf(cf).TypesInfo, d)
				c.Check(ok, rel, core.DeclName(fd), "the map "+o.Name()+" written here was made for this caller by "+core.NameOf(cf), src[o].Pos(), "",
					core.NameOf(cf)+" returns a map that is not the caller's own ("+why+"): what this function deletes or adds is seen by every other holder")
			}
		}
	}
	if n == 0 {
		c.Unknown("-", "-", "maps obtained from a call and written by the caller", token.NoPos, "none found")
	}
}

func runR059(c *core.Ctx) {
	const rel = "restli"
	inf := info(c, rel)
	_, fd := mustDecl(c, rel, "(*rootNode).Handler")
	// locals of the function body itself (not of nested literals) created by a composite literal / new
	fresh := map[types.Object]bool{}
	core.WalkNoFuncLit(fd.Body, func(x ast.Node) bool {
		as, ok := x.(*ast.AssignStmt)
		if !ok || as.Tok != token.DEFINE || len(as.Lhs) != len(as.Rhs) {
			return true
		}
		for i, l := range as.Lhs {
			r := core.Unparen(as.Rhs[i])
			if u, ok := r.(*ast.UnaryExpr); ok && u.Op == token.AND {
				r = core.Unparen(u.X)
			}
			isNew := false
			switch rr := r.(type) {
			case *ast.CompositeLit:
				isNew = true
			case *ast.CallExpr:
				if id, ok := core.Unparen(rr.Fun).(*ast.Ident); ok && id.Name == "new" {
					isNew = true
				}
			}
			if isNew {
				fresh[core.ObjOf(inf, l)] = true
			}
		}
		return true
	})
	var bad []string
	rets := 0
	core.WalkNoFuncLit(fd.Body, func(x ast.Node) bool {
		r, ok := x.(*ast.ReturnStmt)
		if !ok || len(r.Results) != 1 {
			return true
		}
		rets++
		e := core.Unparen(r.Results[0])
		if u, ok := e.(*ast.UnaryExpr); ok && u.Op == token.AND {
			if _, isLit := core.Unparen(u.X).(*ast.CompositeLit); isLit {
				return true
			}
		}
		if o := core.ObjOf(inf, e); o != nil && fresh[o] {
			if _, isField := core.Unparen(e).(*ast.SelectorExpr); !isField {
				return true
			}
		}
		// the address of a variable declared in this body (`var c rootNode; …; return &c`) is new on every call
		if u, ok := e.(*ast.UnaryExpr); ok && u.Op == token.AND {
			if id, ok := core.Unparen(u.X).(*ast.Ident); ok {
				if v, ok := core.ObjOf(inf, id).(*types.Var); ok && bodyLocal(inf, fd, v) {
					return true
				}
			}
		}
		bad = append(bad, c.M.Position(r.Pos())+": "+core.ExprString(e))
		return true
	})
	c.Check(rets > 0 && len(bad) == 0, rel, "(*rootNode).Handler", "the handler returned was created by this call", fd.Pos(), "",
		strings.Join(bad, "; ")+" is not a value this call created: a memoised copy misses everything registered after it was made")
}

func runR196(c *core.Ctx) {
	const rel = "d2"
	inf := info(c, rel)
	_, fd := mustDecl(c, rel, "(*Client).waitForUriUpdates")
	par := core.Parents(fd.Body)
	n := 0
	ast.Inspect(fd.Body, func(x ast.Node) bool {
		call, ok := x.(*ast.CallExpr)
		if !ok || len(call.Args) < 1 {
			return true
		}
		cf := core.Callee(inf, call)
		if cf == nil || core.NameOf(cf) != "handleUriUpdate" {
			return true
		}
		// enclosing loop
		var loop ast.Node
		for p := par[call]; p != nil; p = par[p] {
			switch p.(type) {
			case *ast.RangeStmt, *ast.ForStmt:
				loop = p
			}
			if loop != nil {
				break
			}
		}
		n++
		if loop == nil {
			c.Bad(rel, "(*Client).waitForUriUpdates", "events are handled in a loop", call.Pos(), "handleUriUpdate is not called from a loop over the events")
			return true
		}
		// the snapshot argument: strip a type assertion
		arg := core.Unparen(call.Args[0])
		if ta, ok := arg.(*ast.TypeAssertExpr); ok {
			arg = core.Unparen(ta.X)
		}
		o := core.ObjOf(inf, arg)
		inLoop := func(pos token.Pos) bool { return pos >= loop.Pos() && pos < loop.End() }
		okSnap, why := false, ""
		switch {
		case o == nil:
			// an expression evaluated at the call: a Load inside the loop
			okSnap = true
		case inLoop(o.Pos()):
			okSnap = true
		default:
			// lives across iterations: must be reassigned in the loop with the value that is stored
			var stored []types.Object
			ast.Inspect(loop, func(y ast.Node) bool {
				if sc, ok := y.(*ast.CallExpr); ok {
					if sf := core.Callee(inf, sc); sf != nil && core.NameOf(sf) == "Store" && len(sc.Args) == 2 {
						if so := core.ObjOf(inf, sc.Args[1]); so != nil {
							stored = append(stored, so)
						}
					}
				}
				return true
			})
			reassigned := false
			ast.Inspect(loop, func(y ast.Node) bool {
				if as, ok := y.(*ast.AssignStmt); ok && len(as.Lhs) == len(as.Rhs) {
					for i, l := range as.Lhs {
						if core.ObjOf(inf, l) == o {
							for _, so := range stored {
								if core.ObjOf(inf, as.Rhs[i]) == so {
									reassigned = true
								}
							}
							if sc, ok := core.Unparen(as.Rhs[i]).(*ast.CallExpr); ok {
								if sf := core.Callee(inf, sc); sf != nil && (core.NameOf(sf) == "handleUriUpdate" || core.NameOf(sf) == "Load") {
									reassigned = true
								}
							}
						}
					}
				}
				return true
			})
			okSnap = reassigned
			why = o.Name() + " is obtained before the loop and never brought up to date in it"
		}
		c.Check(okSnap, rel, "(*Client).waitForUriUpdates", "the snapshot updated is the current one", call.Pos(), "", why+": every event is applied to the set as it was when the goroutine started")
		return true
	})
	if n == 0 {
		c.Unknown(rel, "(*Client).waitForUriUpdates", "call of handleUriUpdate", fd.Pos(), "not found")
	}
}

func init() {
	core.Register(&core.Rule{
		ID:    "R04.14",
		Title: "a reflected pointer is dereferenced only when it is known not to be nil",
		Text: "In restlicodec every reflect.Value.Elem() on a value and every reflect.Indirect is made where `IsNil()` of the same variable is known to be false, or its result is tested with IsValid() before use: " +
			"Elem / Indirect of a nil pointer yield the zero Value, and the next Type() / Kind-specific call on it panics inside the reader instead of returning an error.",
		Props: []string{"C04", "C01"},
		Floor: map[string]int{"v2": 1, "root": 1},
		Run:   runR0414,
	})
}

func runR0414(c *core.Ctx) {
	const rel = "restlicodec"
	inf := info(c, rel)
	n := 0
	for _, fd := range c.M.FuncDecls(rel) {
		if fd.Body == nil || strings.HasSuffix(c.M.Fset.File(fd.Pos()).Name(), "_test.go") {
			continue
		}
		par := core.Parents(fd.Body)
		ast.Inspect(fd.Body, func(x ast.Node) bool {
			call, ok := x.(*ast.CallExpr)
			if !ok {
				return true
			}
			cf := core.Callee(inf, call)
			var operand ast.Expr
			switch {
			case cf != nil && core.IsMethod(cf, "reflect", "Value", "Elem"):
				if sel, ok := core.Unparen(call.Fun).(*ast.SelectorExpr); ok {
					operand = sel.X
				}
			case core.IsFunc(cf, "reflect", "Indirect") && len(call.Args) == 1:
				operand = call.Args[0]
			}
			if operand == nil {
				return true
			}
			n++
			o := core.ObjOf(inf, operand)
			okDeref := o != nil && core.GuardedByFact(inf, par, call, func(f core.Fact) bool {
				fc, ok := core.Unparen(f.Expr).(*ast.CallExpr)
				if !ok || f.Val {
					return false
				}
				ff := core.Callee(inf, fc)
				if ff == nil || !core.IsMethod(ff, "reflect", "Value", "IsNil") {
					return false
				}
				sel, ok := core.Unparen(fc.Fun).(*ast.SelectorExpr)
				return ok && core.ObjOf(inf, sel.X) == o
			}, nil)
			if !okDeref {
				// result validated afterwards: y := <deref>; … y.IsValid()
				if as, ok := par[call].(*ast.AssignStmt); ok && len(as.Lhs) == 1 {
					if y := core.ObjOf(inf, as.Lhs[0]); y != nil {
						ast.Inspect(fd.Body, func(z ast.Node) bool {
							if vc, ok := z.(*ast.CallExpr); ok && vc.Pos() > call.End() {
								if vf := core.Callee(inf, vc); vf != nil && core.IsMethod(vf, "reflect", "Value", "IsValid") {
									if sel, ok := core.Unparen(vc.Fun).(*ast.SelectorExpr); ok && core.ObjOf(inf, sel.X) == y {
										okDeref = true
									}
								}
							}
							return true
						})
					}
				}
			}
			c.Check(okDeref, rel, core.DeclName(fd), fmt.Sprintf("dereference #%d is made on a non-nil pointer", ordinal(fd, call)), call.Pos(), "",
				core.ExprString(call)+" may be applied to a nil pointer: the zero Value it yields makes the caller panic on Type()")
			return true
		})
	}
	if n == 0 {
		c.Unknown(rel, "-", "reflect dereferences", token.NoPos, "none found")
	}
}

func init() {
	core.Register(&core.Rule{
		ID:    "R13.7",
		Title: "a ROR2 array is left only past its closing parenthesis",
		Text: "On every path of ror2Reader.ReadArray to a return that may be a success, the last thing done to the cursor is `pos++` executed where the byte under the cursor was known to be ')' (an `if` / `case` on data[pos]), with no element callback since. " +
			"Returning with the cursor still on the ')' of an empty `List()` makes the enclosing ReadMap take it for the end of the record: every later field is silently dropped and gets its default.",
		Props: []string{"C13", "C01", "C03", "C04"},
		Floor: map[string]int{"v2": 1, "root": 1},
		Run:   runR137,
	})
}

func runR137(c *core.Ctx) {
	const rel = "restlicodec"
	inf := info(c, rel)
	f, fd := mustDecl(c, rel, "(*ror2Reader).ReadArray")
	sig := f.Type().(*types.Signature)
	par := core.Parents(fd.Body)
	isPos := func(e ast.Expr) bool {
		sel, ok := core.Unparen(e).(*ast.SelectorExpr)
		if !ok {
			return false
		}
		fv, ok := core.ObjOf(inf, sel).(*types.Var)
		return ok && fv.IsField() && core.NameOf(fv) == "pos"
	}
	atPos := func(e ast.Expr) bool {
		ix, ok := core.Unparen(e).(*ast.IndexExpr)
		return ok && isPos(ix.Index)
	}
	charOf := func(e ast.Expr) (int64, bool) {
		cv := core.ConstOf(inf, e)
		if cv == nil || (cv.Kind() != constant.Int) {
			return 0, false
		}
		return constant.Int64Val(cv)
	}
	// the local that holds a copy of the byte under the cursor (`delim := u.data[u.pos]`), if any
	var byteCopy types.Object
	core.WalkNoFuncLit(fd.Body, func(x ast.Node) bool {
		if as, ok := x.(*ast.AssignStmt); ok && len(as.Lhs) == len(as.Rhs) {
			for i, l := range as.Lhs {
				if atPos(as.Rhs[i]) && byteCopy == nil {
					byteCopy = core.ObjOf(inf, l)
				}
			}
		}
		return true
	})
	params := map[types.Object]bool{}
	for _, fl := range fd.Type.Params.List {
		for _, id := range fl.Names {
			params[inf.Defs[id]] = true
		}
	}
	// state = cur + 3*last + 12*bind.  cur: what is known about the byte under the cursor; last: about the byte the last
	// pos++ stepped over (0 = nothing stepped over since the last element); bind: what the copy holds
	const (
		unk = iota
		closeP
		other
	)
	const (
		lNone = iota
		lUnk
		lClose
		lOther
	)
	const (
		bNone = iota
		bCur
		bLast
	)
	dec := func(st int) (cur, last, bind int) { return st % 3, (st / 3) % 4, st / 12 }
	enc := func(cur, last, bind int) int { return cur + 3*last + 12*bind }
	var bad []string
	seen := map[token.Pos]bool{}
	inner := &core.Automaton{
		AtEnd: true,
		Node: func(st int, x ast.Node) int {
			cur, last, bind := dec(st)
			switch y := x.(type) {
			case *ast.IncDecStmt:
				if isPos(y.X) {
					if y.Tok != token.INC {
						return enc(unk, lNone, bNone)
					}
					nl := lUnk
					switch cur {
					case closeP:
						nl = lClose
					case other:
						nl = lOther
					}
					nb := bNone
					if bind == bCur {
						nb = bLast
					}
					return enc(unk, nl, nb)
				}
			case *ast.AssignStmt:
				for i, l := range y.Lhs {
					if isPos(l) {
						return enc(unk, lNone, bNone)
					}
					if byteCopy != nil && core.ObjOf(inf, l) == byteCopy {
						bind = bNone
						if len(y.Lhs) == len(y.Rhs) && atPos(y.Rhs[i]) {
							bind = bCur
						}
					}
				}
			case *ast.ReturnStmt:
				if last != lClose && core.ErrorReturn(inf, par, sig, y) != "error" && !seen[y.Pos()] {
					seen[y.Pos()] = true
					bad = append(bad, c.M.Position(y.Pos()))
				}
				return st
			}
			for _, call := range core.CallsIn(x) {
				if id, ok := core.Unparen(call.Fun).(*ast.Ident); ok && params[core.ObjOf(inf, id)] {
					return enc(unk, lNone, bNone) // the element callback moves the cursor
				}
			}
			return enc(cur, last, bind)
		},
		Edge: func(st int, facts []core.Fact) (int, bool) {
			cur, last, bind := dec(st)
			for _, f := range facts {
				be, ok := core.Unparen(f.Expr).(*ast.BinaryExpr)
				if !ok || (be.Op != token.EQL && be.Op != token.NEQ) {
					continue
				}
				var subj ast.Expr
				var ch int64
				if v, ok := charOf(be.Y); ok {
					subj, ch = be.X, v
				} else if v, ok := charOf(be.X); ok {
					subj, ch = be.Y, v
				} else {
					continue
				}
				which := bNone
				switch {
				case atPos(subj):
					which = bCur
				case byteCopy != nil && core.ObjOf(inf, subj) == byteCopy:
					which = bind
				}
				if which == bNone {
					continue
				}
				equal := (be.Op == token.EQL) == f.Val
				// what the fact says about "is it the closing parenthesis"
				know := unk
				switch {
				case ch == ')' && equal:
					know = closeP
				case ch == ')' && !equal:
					know = other
				case ch != ')' && equal:
					know = other
				}
				if know == unk {
					continue
				}
				if which == bCur {
					if cur != unk && cur != know {
						return st, false
					}
					cur = know
				} else {
					k := lClose
					if know == other {
						k = lOther
					}
					if last == lClose && k == lOther || last == lOther && k == lClose {
						return st, false
					}
					if last == lUnk {
						last = k
					}
				}
			}
			return enc(cur, last, bind), true
		},
	}
	// small result codes of a spliced helper (`sep = sepClose` … `switch sep`) are followed as well
	a := inner
	for i, o := range core.EnumLocals(inf, fd.Body) {
		if i < 2 {
			a = core.TrackEnum(inf, o, a)
		}
	}
	core.NewFlow(c.M, inf, fd.Body).Run(a)
	sort.Strings(bad)
	c.Check(len(bad) == 0, rel, "(*ror2Reader).ReadArray", "every success return has consumed the closing parenthesis", fd.Pos(), "",
		"the return at "+strings.Join(bad, ", ")+" can be reached although the last byte the cursor stepped over is not known to be the list's ')': an empty list leaves its ')' to the enclosing map")
}

func init() {
	// what the seventh seeding round added to each property's claim (printed into the evidence files)
	for id, text := range map[string]string{
		"C01": "Round 7: reader constructors hand their input to the reader unchanged (R01.12); generated defaults are never shared between instances (R13.1 / R13.3 registered here); a non-nil error is mentioned again before a non-error return (R08.10); decoded integers are range-checked, never truncated (R16.12); ReadArray leaves only past its ')' (R13.7).",
		"C02": "Round 7: the located batch key is the caller's, not the probe (R16.13); context keys of one type are pairwise distinct (R05.8); ErrorResponse tests agree everywhere (R08.11); the client never adopts a header map (R17.13).",
		"C03": "Round 7: the patch checker's section flags only accumulate (R03.6); R01.12, R16.12, R13.7.",
		"C04": "Round 7: every non-error return of UnmarshalQueryParamsDecoder has decoded the parameters (R04.13); reflected pointers are dereferenced only when known non-nil (R04.14); R08.10; a deferred literal does not erase the error being returned (R14.7); R16.12, R13.7.",
		"C05": "Round 7: context key constants are pairwise distinct (R05.8); every Handler() call returns a copy it made itself (R05.9); R04.13.",
		"C06": "Round 7: R04.13 registered here (required query parameters are accounted for only in DecodeQueryParams); a map the caller deletes from was made for that caller (R06.10); R13.6.",
		"C07": "Round 7: a known non-nil error does not vanish (R08.10: catches an inner `:=` shadowing the error result of WriteGenericMap's closure).",
		"C08": "Round 7: R08.10; ErrorResponse classification uses one mechanism in all places (R08.11); deferred assignments keep the error being returned (R14.7).",
		"C09": "Round 7: R15.6 registered here (the resolver's URL is never written through: requests are reproducible); a key variable rewritten before it indexes the outer map makes a keyed store order-dependent (R09.1); R17.13.",
		"C10": "Round 7: collection comparators answer true only after the lengths were found equal (R10.10).",
		"C11": "Round 7: R07.3 registered here (leading scope depth of batch_partial_update); R03.6; R08.10.",
		"C13": "Round 7: no reflect.Value.IsZero decides presence in the untyped reader (R13.6); ReadArray is left only past its closing parenthesis (R13.7).",
		"C14": "Round 7: a deferred function literal does not overwrite the error result (R14.7).",
		"C15": "Round 7: R02.3 (generated RootResource is the first path segment) and R14.6 (a tunnelled request keeps its query) registered here.",
		"C16": "Round 7: narrowing integer conversions in the readers follow a bounded parse or a range guard (R16.12); the located key is the caller's (R16.13); R06.10.",
		"C17": "Round 7: header maps are never adopted from a callback or parameter (R17.13); Load never writes (R18.9); R05.9; R06.10.",
		"C18": "Round 7: Load (and what it calls) uses no writing method of sync.Map (R18.9).",
		"C19": "Round 7: each announcement is applied to the snapshot that is current (R19.6).",
		"C20": "Round 7: R12.3 registered here (the custom-typeref init file is emitted through the sorted Range); R14.7.",
	} {
		if p := core.Properties[id]; p != nil {
			p.Explanation += "  " + text
		}
	}
}
