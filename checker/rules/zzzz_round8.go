package rules

import (
	"fmt"
	"go/ast"
	"go/token"
	"go/types"
	"sort"
	"strings"

	"verif/checker/core"
)

// Rules added after the eighth seeding round.

func init() {
	core.Register(&core.Rule{
		ID:    "R16.14",
		Title: "the key read from a response is only a probe",
		Text: "In genericBatchKeySet.LocateOriginalKeyFromReader the key decoded from the reader (the result of UnmarshalRestLi) is never the value returned as the original key: it is handed to LocateOriginalKey and that call's first result is what comes back. " +
			"A helper shared with the primitive key set (where probe and original are the same value) returns the freshly decoded pointer, and every per-key error or result of a batch call is filed under a key the caller never saw.",
		Props: []string{"C16", "C08", "C02"},
		Floor: map[string]int{"v2": 1, "root": 1},
		Run:   runR1614,
	})
	core.Register(&core.Rule{
		ID:    "R07.12",
		Title: "every exclusion match of a reader skips the ignored leading scope",
		Text: "In the methods of missingFieldsTracker every call of genericMatches over the tracker's scope is given `currentScope[scopeToIgnore:]`: fields that are present (enterMapScope) and fields that are absent (IsKeyExcluded, asked by recordMissingRequiredFields and by the patch checker) " +
			"must be matched at the same depth. Matching the whole scope in one of them makes an excluded required field of a batch / patch envelope `missing`, or lets an excluded field of a patch through.",
		Props:   []string{"C07", "C06", "C11"},
		Modules: []string{"v2"},
		Floor:   map[string]int{"v2": 1},
		Run:     runR0712,
	})
	core.Register(&core.Rule{
		ID:    "R14.8",
		Title: "only the server's entry point de-tunnels a request",
		Text:  "DecodeTunnelledQuery consumes and replaces the body of the request it is given. Its only caller in the module is rootNode.ServeHTTP. A client-side caller (a logging transport decoding a Clone of the outgoing request: Clone shares the Body) drains the body of the request that is about to be sent.",
		Props: []string{"C14", "C02"},
		Floor: map[string]int{"v2": 1, "root": 1},
		Run:   runR148,
	})
	core.Register(&core.Rule{
		ID:    "R07.13",
		Title: "a function given an exclusion spec never builds a writer without it",
		Text: "In the restli package, inside every function that has a parameter of type restlicodec.PathSpec, no writer is created with a constructor that takes no exclusion spec (NewCompactJsonWriter, NewPrettyJsonWriter) : the body of a request is serialised with the spec the caller passed on every branch, " +
			"the tunnelled one included. (Helpers extracted from such a function are folded back by the loader before the rule runs.)",
		Props: []string{"C07", "C11"},
		Floor: map[string]int{"v2": 1, "root": 1},
		Run:   runR0713,
	})
	core.Register(&core.Rule{
		ID:    "R12.14",
		Title: "where a type lives is asked of the type",
		Text: "utils.FqcpToPackagePath is called by Identifier.PackagePath (which consults the cycle flag and relocates cyclic types to conflictResolution) and by Resource.PackagePath only. Any other site computing a package directory from a namespace ignores the relocation: " +
			"the hand-written file of a custom typeref referenced from a package cycle is then looked for in the wrong directory and generated a second time.",
		Props:   []string{"C12", "C20"},
		Modules: []string{"v2"},
		Floor:   map[string]int{"v2": 2},
		Run:     runR1214,
	})
	core.Register(&core.Rule{
		ID:      "R13.8",
		Title:   "an untyped record is always decoded by the target's own decoder",
		Text:    "Every return of RawRecord.UnmarshalTo that is not certainly an error has called the target's UnmarshalRestLi: defaults are populated (and required fields reported) by the generated decoder only, so a shortcut for an empty record leaves every defaulted field nil.",
		Props:   []string{"C13", "C06"},
		Modules: []string{"v2"},
		Floor:   map[string]int{"v2": 1},
		Run:     runR138,
	})
	core.Register(&core.Rule{
		ID:    "R19.7",
		Title: "announcements are decoded into values created empty",
		Text: "In the d2 package the target of every json.Unmarshal / Decoder.Decode is a value this function created (new, a composite literal, a local declared without a value, or the receiver of an UnmarshalJSON method) and no `*target = …` copy from another value precedes the call: " +
			"encoding/json keeps fields the document leaves out and reuses the backing array of a non-nil slice, so decoding over a copy of the published definition keeps removed priorities and rewrites the snapshot earlier resolutions still hold.",
		Props: []string{"C19", "C17"},
		Floor: map[string]int{"v2": 2, "root": 2},
		Run:   runR197,
	})
	core.Register(&core.Rule{
		ID:    "R02.9",
		Title: "bytes are written one character per byte",
		Text: "In the JSON writers' WriteBytes the []byte parameter is never converted to a string as a whole (`string(v)`): Rest.li's JSON form of bytes is one code point per byte, so text that happens to be valid UTF-8 must still be expanded byte by byte. " +
			"`if utf8.Valid(v) { String(string(v)) }` turns c3 a9 into the single character U+00E9, which is read back as the single byte e9.",
		Props: []string{"C02", "C01", "C03"},
		Floor: map[string]int{"v2": 1, "root": 1},
		Run:   runR029,
	})
}

func runR1614(c *core.Ctx) {
	const rel = "restli/batchkeyset"
	inf := info(c, rel)
	_, fd := mustDecl(c, rel, "(*genericBatchKeySet).LocateOriginalKeyFromReader")
	// objects holding the decoded probe
	probes := map[types.Object]bool{}
	located := map[types.Object]bool{}
	ast.Inspect(fd.Body, func(x ast.Node) bool {
		as, ok := x.(*ast.AssignStmt)
		if !ok || len(as.Rhs) != 1 || len(as.Lhs) == 0 {
			return true
		}
		call, ok := core.Unparen(as.Rhs[0]).(*ast.CallExpr)
		if !ok {
			return true
		}
		cf := core.Callee(inf, call)
		if cf == nil {
			return true
		}
		o := core.ObjOf(inf, as.Lhs[0])
		switch core.NameOf(cf) {
		case "UnmarshalRestLi":
			if o != nil {
				probes[o] = true
			}
		case "LocateOriginalKey":
			if o != nil {
				located[o] = true
			}
		}
		return true
	})
	var named types.Object
	if fd.Type.Results != nil && len(fd.Type.Results.List) > 0 && len(fd.Type.Results.List[0].Names) > 0 {
		named = inf.Defs[fd.Type.Results.List[0].Names[0]]
	}
	var bad []string
	for o := range probes {
		if o == named && !located[o] {
			bad = append(bad, "the decoded key is the function's own result "+o.Name())
		}
	}
	for _, r := range core.ReturnsIn(fd.Body) {
		if len(r.Results) >= 1 {
			if o := core.ObjOf(inf, r.Results[0]); o != nil && probes[o] && !located[o] {
				bad = append(bad, c.M.Position(r.Pos())+" returns the decoded key "+o.Name())
			}
		}
	}
	sort.Strings(bad)
	c.Check(len(probes) > 0 && len(located)+len(bad) > 0 && len(bad) == 0, rel, "(*genericBatchKeySet).LocateOriginalKeyFromReader", "what is returned is the located original, not the decoded probe", fd.Pos(), "",
		strings.Join(bad, "; ")+": pointer-typed keys come back as objects the caller never passed (or no decode / locate step was recognised)")
}

func runR0712(c *core.Ctx) {
	const rel = "restlicodec"
	inf := info(c, rel)
	tt, _ := mustObj(c, rel, "missingFieldsTracker").(*types.TypeName)
	n := 0
	for _, fd := range c.M.FuncDecls(rel) {
		if fd.Body == nil || fd.Recv == nil {
			continue
		}
		f, _ := inf.Defs[fd.Name].(*types.Func)
		if f == nil || core.RecvNamed(f) == nil || core.RecvNamed(f).Obj() != tt {
			continue
		}
		ast.Inspect(fd.Body, func(x ast.Node) bool {
			call, ok := x.(*ast.CallExpr)
			if !ok || len(call.Args) < 2 {
				return true
			}
			cf := core.Callee(inf, call)
			if cf == nil || (core.NameOf(cf) != "genericMatches" && core.NameOf(cf) != "Matches") {
				return true
			}
			arg := core.Unparen(call.Args[1])
			if core.NameOf(cf) == "Matches" {
				arg = core.Unparen(call.Args[0])
			}
			// the scope hoisted into a local (`relevant := t.currentScope[t.scopeToIgnore:]`) is what its only definition says
			if v, ok := core.ObjOf(inf, arg).(*types.Var); ok && !v.IsField() {
				var defs []ast.Expr
				ast.Inspect(fd.Body, func(y ast.Node) bool {
					if as, ok := y.(*ast.AssignStmt); ok && len(as.Lhs) == len(as.Rhs) {
						for i, l := range as.Lhs {
							if core.ObjOf(inf, l) == v {
								defs = append(defs, as.Rhs[i])
							}
						}
					}
					return true
				})
				if len(defs) == 1 {
					arg = core.Unparen(defs[0])
				}
			}
			mentionsScope := false
			ast.Inspect(arg, func(y ast.Node) bool {
				if e, ok := y.(ast.Expr); ok {
					if _, isF := fieldNamed(inf, e, tt, "currentScope"); isF {
						mentionsScope = true
					}
				}
				return true
			})
			if !mentionsScope {
				return true
			}
			n++
			okSlice := false
			if se, ok := arg.(*ast.SliceExpr); ok && se.Low != nil && se.High == nil {
				_, isScope := fieldNamed(inf, se.X, tt, "currentScope")
				_, isIgnore := fieldNamed(inf, se.Low, tt, "scopeToIgnore")
				okSlice = isScope && isIgnore
			}
			c.Check(okSlice, rel, core.DeclName(fd), fmt.Sprintf("exclusion match #%d is made below the ignored leading scope", ordinal(fd, call)), call.Pos(), "",
				core.ExprString(arg)+" is matched from the start of the scope: the envelope segments (entities / key / patch) are compared with the spec")
			return true
		})
	}
	if n == 0 {
		c.Unknown(rel, "-", "exclusion matches of the reader-side tracker", token.NoPos, "none found")
	}
}

func runR148(c *core.Ctx) {
	const rel = "restli"
	dec := mustFunc(c, rel, "DecodeTunnelledQuery")
	n := 0
	for _, p := range c.M.Roots {
		inf := p.TypesInfo
		prel := c.M.Rel(p.PkgPath)
		for _, fd := range c.M.FuncDecls(prel) {
			fname := c.M.Fset.File(fd.Pos()).Name()
			if fd.Body == nil || strings.HasSuffix(fname, "_test.go") {
				continue
			}
			ast.Inspect(fd.Body, func(x ast.Node) bool {
				var callee *types.Func
				switch y := x.(type) {
				case *ast.CallExpr:
					callee = core.Callee(inf, y)
				case *ast.Ident:
					if f, ok := inf.Uses[y].(*types.Func); ok {
						callee = f
					}
				}
				if callee == nil || callee.Origin() != dec {
					return true
				}
				if _, isCall := x.(*ast.CallExpr); !isCall {
					// a mention that is the Fun of a call is reported by the call itself
					return true
				}
				n++
				c.Check(prel == rel && core.DeclName(fd) == "(*rootNode).ServeHTTP", prel, core.DeclName(fd), "DecodeTunnelledQuery is called by the server's entry point only", x.Pos(), "",
					"a caller other than rootNode.ServeHTTP de-tunnels a request: the body it is given (shared with any Clone) is drained and replaced")
				return false
			})
		}
	}
	if n == 0 {
		c.Unknown(rel, "-", "calls of DecodeTunnelledQuery", token.NoPos, "none found")
	}
}

func runR0713(c *core.Ctx) {
	const rel = "restli"
	inf := info(c, rel)
	isSpec := func(t types.Type) bool {
		nn := namedOf(t)
		return nn != nil && core.NameOf(nn.Obj()) == "PathSpec"
	}
	n := 0
	for _, fd := range c.M.FuncDecls(rel) {
		if fd.Body == nil || strings.HasSuffix(c.M.Fset.File(fd.Pos()).Name(), "_test.go") {
			continue
		}
		has := false
		for _, f := range fd.Type.Params.List {
			if tv, ok := inf.Types[f.Type]; ok && isSpec(tv.Type) {
				has = true
			}
		}
		if !has {
			continue
		}
		n++
		var bad []string
		for _, call := range core.CallsIn(fd.Body) {
			cf := core.Callee(inf, call)
			if cf == nil || cf.Pkg() == nil || cf.Pkg().Path() != pkgPath(c, "restlicodec") {
				continue
			}
			switch core.NameOf(cf) {
			case "NewCompactJsonWriter", "NewPrettyJsonWriter":
				bad = append(bad, c.M.Position(call.Pos())+": "+core.NameOf(cf)+"()")
			}
		}
		c.Check(len(bad) == 0, rel, core.DeclName(fd), "every writer created here carries the exclusion spec", fd.Pos(), "",
			strings.Join(bad, "; ")+" creates a writer without the exclusion spec this function was given: read-only and create-only fields are transmitted on that branch")
	}
	if n == 0 {
		c.Unknown(rel, "-", "functions with an exclusion-spec parameter", token.NoPos, "none found")
	}
}

func runR1214(c *core.Ctx) {
	target := mustFunc(c, "codegen/utils", "FqcpToPackagePath")
	n := 0
	for _, p := range c.M.Roots {
		inf := p.TypesInfo
		prel := c.M.Rel(p.PkgPath)
		for _, fd := range c.M.FuncDecls(prel) {
			if fd.Body == nil || strings.HasSuffix(c.M.Fset.File(fd.Pos()).Name(), "_test.go") {
				continue
			}
			for _, call := range core.CallsIn(fd.Body) {
				if cf := core.Callee(inf, call); cf == nil || cf.Origin() != target {
					continue
				}
				n++
				name := core.NameOf(inf.Defs[fd.Name])
				c.Check(name == "PackagePath", prel, core.DeclName(fd), "FqcpToPackagePath is called by a PackagePath method only", call.Pos(), "",
					"a package directory is computed from a namespace outside Identifier.PackagePath / Resource.PackagePath: the relocation of cyclic types to conflictResolution is ignored here")
			}
		}
	}
	if n == 0 {
		c.Unknown("codegen/utils", "-", "calls of FqcpToPackagePath", token.NoPos, "none found")
	}
}

func runR138(c *core.Ctx) {
	rel := "restlidata"
	inf := info(c, rel)
	f, fd := mustDecl(c, rel, "(*RawRecord).UnmarshalTo")
	sig := f.Type().(*types.Signature)
	par := core.Parents(fd.Body)
	decodes := func(x ast.Node) bool {
		return hasCall(inf, x, func(cf *types.Func, _ *ast.CallExpr) bool { return core.NameOf(cf) == "UnmarshalRestLi" })
	}
	early := reachWithout(c, inf, fd.Body, nil, decodes, func(x ast.Node) bool {
		r, ok := x.(*ast.ReturnStmt)
		return ok && !decodes(r) && core.ErrorReturn(inf, par, sig, r) != "error"
	})
	where := ""
	if len(early) > 0 {
		where = c.M.Position(early[0].Pos())
	}
	c.Check(len(early) == 0, rel, "(*RawRecord).UnmarshalTo", "every non-error return has run the target's decoder", fd.Pos(), "",
		"the return at "+where+" leaves the target untouched: its defaults are not populated and its required fields are not checked")
}

func runR197(c *core.Ctx) {
	const rel = "d2"
	inf := info(c, rel)
	n := 0
	for _, fd := range c.M.FuncDecls(rel) {
		if fd.Body == nil || strings.HasSuffix(c.M.Fset.File(fd.Pos()).Name(), "_test.go") {
			continue
		}
		recv := recvObj(inf, fd)
		for _, call := range core.CallsIn(fd.Body) {
			cf := core.Callee(inf, call)
			var target ast.Expr
			switch {
			case core.IsFunc(cf, "encoding/json", "Unmarshal") && len(call.Args) == 2:
				target = call.Args[1]
			case cf != nil && core.IsMethod(cf, "encoding/json", "Decoder", "Decode") && len(call.Args) == 1:
				target = call.Args[0]
			}
			if target == nil {
				continue
			}
			n++
			t := core.Unparen(target)
			if u, ok := t.(*ast.UnaryExpr); ok && u.Op == token.AND {
				t = core.Unparen(u.X)
			}
			o := core.ObjOf(inf, t)
			okTarget, why := false, core.ExprString(target)+" is not a value this function created empty"
			switch {
			case o == nil:
				if _, isLit := t.(*ast.CompositeLit); isLit {
					okTarget = true
				}
			case o == recv && strings.HasPrefix(fd.Name.Name, "Unmarshal"):
				okTarget = true
			default:
				v, isVar := o.(*types.Var)
				if isVar && bodyLocal(inf, fd, v) {
					okTarget = true
					// every definition is new(T) / &T{} / a literal / a declaration without value, and nothing is copied into it
					ast.Inspect(fd.Body, func(y ast.Node) bool {
						as, ok := y.(*ast.AssignStmt)
						if !ok || as.Pos() > call.Pos() {
							return true
						}
						for i, l := range as.Lhs {
							lu := core.Unparen(l)
							if st, isStar := lu.(*ast.StarExpr); isStar && core.ObjOf(inf, st.X) == o {
								okTarget = false
								why = c.M.Position(as.Pos()) + ": " + core.ExprString(l) + " is overwritten with a copy of another value before it is decoded into"
							}
							if core.ObjOf(inf, lu) == o && len(as.Lhs) == len(as.Rhs) {
								r := core.Unparen(as.Rhs[i])
								if u, ok := r.(*ast.UnaryExpr); ok && u.Op == token.AND {
									r = core.Unparen(u.X)
								}
								fresh := core.IsNil(inf, r) // a nil target makes Unmarshal fail; it cannot carry old contents
								switch rr := r.(type) {
								case *ast.CompositeLit:
									fresh = true
								case *ast.CallExpr:
									if id, ok := core.Unparen(rr.Fun).(*ast.Ident); ok && (id.Name == "new" || id.Name == "make") {
										fresh = true
									}
								}
								if !fresh {
									okTarget = false
									why = c.M.Position(as.Pos()) + ": " + o.Name() + " is assigned " + core.ExprString(as.Rhs[i]) + ", not a fresh value"
								}
							}
						}
						return true
					})
				}
			}
			c.Check(okTarget, rel, core.DeclName(fd), fmt.Sprintf("JSON decode #%d fills a value created empty", ordinal(fd, call)), call.Pos(), "",
				why+": fields the document leaves out keep old values and slices are decoded into the old backing array")
		}
	}
	if n == 0 {
		c.Unknown(rel, "-", "JSON decodes", token.NoPos, "none found")
	}
}

func runR029(c *core.Ctx) {
	const rel = "restlicodec"
	inf := info(c, rel)
	n := 0
	for _, fd := range c.M.FuncDecls(rel) {
		if fd.Body == nil || fd.Recv == nil || core.NameOf(inf.Defs[fd.Name]) != "WriteBytes" || !strings.Contains(strings.ToLower(core.DeclName(fd)), "json") {
			continue
		}
		if len(fd.Type.Params.List) == 0 || len(fd.Type.Params.List[0].Names) == 0 {
			continue
		}
		p := inf.Defs[fd.Type.Params.List[0].Names[0]]
		n++
		var bad []string
		ast.Inspect(fd.Body, func(x ast.Node) bool {
			call, ok := x.(*ast.CallExpr)
			if !ok || len(call.Args) != 1 {
				return true
			}
			if tv, isConv := inf.Types[call.Fun]; isConv && tv.IsType() {
				if b, ok := tv.Type.Underlying().(*types.Basic); ok && b.Info()&types.IsString != 0 && core.ObjOf(inf, call.Args[0]) == p {
					bad = append(bad, c.M.Position(call.Pos()))
				}
			}
			return true
		})
		c.Check(len(bad) == 0, rel, core.DeclName(fd), "the bytes are never reinterpreted as UTF-8 text", fd.Pos(), "",
			"string("+p.Name()+") at "+strings.Join(bad, ", ")+" writes the bytes as the characters they spell in UTF-8: a multi-byte sequence becomes one character and is read back as one byte (or rejected)")
	}
	if n == 0 {
		c.Unknown(rel, "-", "JSON WriteBytes methods", token.NoPos, "none found")
	}
}

func init() {
	core.Register(&core.Rule{
		ID: "R10.11", Generated: true, GeneratedRoot: true,
		Title: "the comparable helpers are never instantiated with a pointer",
		Text: "In every generated Equals, each call of an equals.Comparable… helper (ComparablePointer / Array / Map / ArrayPointer / MapPointer) is instantiated with a type that is compared by value: not a pointer, not an interface. " +
			"Collections of a fixed (or of any named type) hold pointers; pointers satisfy `comparable`, so `ComparableArray([]*MD5, []*MD5)` type-checks and compares identities: a record is no longer Equal to its round-tripped copy while their hashes agree.",
		Props: []string{"C10"},
		Floor: map[string]int{"corpus": 10},
		Run:   runR1011,
	})
	core.Register(&core.Rule{
		ID:    "R04.15",
		Title: "a slice is indexed with a constant only where it is known to be long enough",
		Text: "In restli/batchkeyset every index expression with a constant index on a slice lies where a comparison of len() of that slice (or a range over it) establishes the element exists. " +
			"`bucket[0]` as a fast path on the bucket of a key whose hash was never added indexes a nil slice: a response naming an unrequested key panics in the caller's goroutine instead of returning `unknown key`. " +
			"(The unchanged tree has no such expression; a synthetic positive control is analysed on every run.)",
		Props: []string{"C04", "C16"},
		Floor: map[string]int{"v2": 1, "root": 1},
		Run:   runR0415,
	})
}

func runR1011(c *core.Ctx) {
	if c.Corpus.Failure != "" {
		return
	}
	for _, g := range genModel(c) {
		fd := g.Methods["Equals"]
		if fd == nil || fd.Body == nil {
			continue
		}
		inf := g.inf()
		n := 0
		var bad []string
		for _, call := range core.CallsIn(fd.Body) {
			cf := core.Callee(inf, call)
			if cf == nil || cf.Pkg() == nil || !strings.HasSuffix(cf.Pkg().Path(), "restli/equals") || !strings.HasPrefix(cf.Name(), "Comparable") {
				continue
			}
			n++
			fun := core.Unparen(call.Fun)
			for {
				if ix, ok := fun.(*ast.IndexExpr); ok {
					fun = core.Unparen(ix.X)
					continue
				}
				break
			}
			var id *ast.Ident
			switch f := fun.(type) {
			case *ast.Ident:
				id = f
			case *ast.SelectorExpr:
				id = f.Sel
			}
			if id == nil {
				continue
			}
			inst, ok := inf.Instances[id]
			if !ok || inst.TypeArgs == nil || inst.TypeArgs.Len() == 0 {
				continue
			}
			switch inst.TypeArgs.At(0).Underlying().(type) {
			case *types.Pointer, *types.Interface:
				bad = append(bad, fmt.Sprintf("%s: %s[%s]", c.M.Position(call.Pos()), cf.Name(), inst.TypeArgs.At(0)))
			}
		}
		if n == 0 {
			continue
		}
		c.Check(len(bad) == 0, g.Rel, g.Name, "comparable helpers compare values, not identities", fd.Pos(), fmt.Sprintf("%d call(s)", n),
			strings.Join(bad, "; ")+" compares pointers: structurally equal values with distinct element pointers are unequal")
	}
}

// unguardedConstIndex lists the constant-index expressions on slices in body that no len() comparison or range protects.
func unguardedConstIndex(inf *types.Info, body *ast.BlockStmt) (total int, bad []ast.Node) {
	par := core.Parents(body)
	ast.Inspect(body, func(x ast.Node) bool {
		ix, ok := x.(*ast.IndexExpr)
		if !ok {
			return true
		}
		tv, ok := inf.Types[ix.X]
		if !ok {
			return true
		}
		if _, isSlice := tv.Type.Underlying().(*types.Slice); !isSlice {
			return true
		}
		if itv, ok := inf.Types[ix.Index]; !ok || itv.Value == nil {
			return true
		}
		total++
		o := core.ObjOf(inf, ix.X)
		guarded := false
		if o != nil {
			guarded = core.GuardedByFact(inf, par, ix, func(f core.Fact) bool {
				found := false
				ast.Inspect(f.Expr, func(y ast.Node) bool {
					if call, ok := y.(*ast.CallExpr); ok && len(call.Args) == 1 {
						if id, ok := core.Unparen(call.Fun).(*ast.Ident); ok && id.Name == "len" && core.ObjOf(inf, call.Args[0]) == o {
							found = true
						}
					}
					return true
				})
				return found
			}, o)
		}
		// `len(b) > 0 && b[0] == k`: the left operand of && protects the right one
		if !guarded && o != nil {
			var child ast.Node = ix
			for p := par[ix]; p != nil && !guarded; child, p = p, par[p] {
				be, ok := p.(*ast.BinaryExpr)
				if !ok || be.Op != token.LAND || be.Y != child {
					if _, isExpr := p.(ast.Expr); !isExpr {
						break
					}
					continue
				}
				ast.Inspect(be.X, func(y ast.Node) bool {
					if call, ok := y.(*ast.CallExpr); ok && len(call.Args) == 1 {
						if id, ok := core.Unparen(call.Fun).(*ast.Ident); ok && id.Name == "len" && core.ObjOf(inf, call.Args[0]) == o {
							guarded = true
						}
					}
					return true
				})
			}
		}
		if !guarded {
			bad = append(bad, ix)
		}
		return true
	})
	return total, bad
}

func runR0415(c *core.Ctx) {
	const rel = "restli/batchkeyset"
	inf := info(c, rel)
	for _, fd := range c.M.FuncDecls(rel) {
		if fd.Body == nil || strings.HasSuffix(c.M.Fset.File(fd.Pos()).Name(), "_test.go") {
			continue
		}
		total, bad := unguardedConstIndex(inf, fd.Body)
		if total == 0 {
			continue
		}
		where := ""
		if len(bad) > 0 {
			where = c.M.Position(bad[0].Pos()) + ": " + core.ExprString(bad[0].(ast.Expr))
		}
		c.Check(len(bad) == 0, rel, core.DeclName(fd), "constant indices are protected by a length test", fd.Pos(), fmt.Sprintf("%d index expression(s)", total),
			where+" may index an empty or nil slice: a key whose hash bucket does not exist makes the lookup panic")
	}
	ctl := `package ctl
func first(b map[int][]string, h int, k string) bool {
	bucket := b[h]
	if bucket[0] == k { return true }
	return false
}
func guarded(b []string, k string) bool { if len(b) > 0 && b[0] == k { return true }; return false }`
	okCtl := false
	if f, cinf := parseControl(c, ctl); f != nil {
		res := map[string]int{}
		for _, d := range f.Decls {
			if fd, isF := d.(*ast.FuncDecl); isF && fd.Body != nil {
				_, bad := unguardedConstIndex(cinf, fd.Body)
				res[fd.Name.Name] = len(bad)
			}
		}
		okCtl = res["first"] == 1 && res["guarded"] == 0
	}
	if okCtl {
		c.OK("-", "-", "positive control: an unguarded bucket[0] is recognised, a guarded one accepted", 0, "")
	} else {
		c.Unknown("-", "-", "positive control", 0, "the analysis no longer tells a guarded constant index from an unguarded one")
	}
}

func init() {
	// what the eighth seeding round added to each property's claim (printed into the evidence files)
	for id, text := range map[string]string{
		"C01": "Round 8: bytes are never written as the UTF-8 text they happen to spell (R02.9).",
		"C02": "Round 8: JSON WriteBytes never converts its parameter to a string as a whole (R02.9); the decoded probe of a batch key is never what LocateOriginalKeyFromReader returns (R16.14); only the server's entry point de-tunnels (R14.8); reflect IsZero never decides that params are absent (R13.6 extended to restli).",
		"C03": "Round 8: R02.9.",
		"C04": "Round 8: constant indices on slices in the batch key sets lie under a len() test (R04.15).",
		"C05": "Round 8: R04.7 registered here (a tunnelled body is never read into a buffer sized by Content-Length with a single Read).",
		"C06": "Round 8: every exclusion match of the reader-side tracker slices the scope by scopeToIgnore (R07.12); RawRecord.UnmarshalTo always runs the target decoder (R13.8).",
		"C07": "Round 8: R07.12; a function given an exclusion spec never creates a writer without it, on the tunnelled branch either (R07.13).",
		"C08": "Round 8: R16.14 registered here (per-key errors are filed under the caller's key).",
		"C09": "Round 8: R12.1 registered here (bindings that no longer type-check).",
		"C10": "Round 8: no equals.Comparable helper is instantiated with a pointer or interface type in generated Equals (R10.11).",
		"C11": "Round 8: R07.12, R07.13.",
		"C12": "Round 8: package directories are computed by PackagePath methods only (R12.14).",
		"C13": "Round 8: every non-error return of RawRecord.UnmarshalTo has called the target's UnmarshalRestLi (R13.8).",
		"C14": "Round 8: DecodeTunnelledQuery is called by rootNode.ServeHTTP only (R14.8).",
		"C15": "Round 8: R13.6 registered here and extended to the restli package (an all-zero params struct is not `no params`).",
		"C16": "Round 8: R16.14; R03.5 registered here (batch keys are JSON member names); R04.15.",
		"C17": "Round 8: JSON is decoded into values created empty, never over a copy of a published snapshot (R19.7).",
		"C19": "Round 8: R19.7.",
		"C20": "Round 8: R12.14 registered here.",
	} {
		if p := core.Properties[id]; p != nil {
			p.Explanation += "  " + text
		}
	}
}

// bodyLocal reports whether v is a variable that lives in one invocation of fd and is not handed in by the caller: not a
// field, not package-level, not a parameter or the receiver (named results count as locals).  Positions are not used:
// statements spliced in by the loader keep the positions of the helper they came from.
func bodyLocal(inf *types.Info, fd *ast.FuncDecl, v *types.Var) bool {
	if v == nil || v.IsField() || v.Pkg() == nil || v.Parent() == v.Pkg().Scope() {
		return false
	}
	if fd.Recv != nil {
		for _, f := range fd.Recv.List {
			for _, id := range f.Names {
				if inf.Defs[id] == types.Object(v) {
					return false
				}
			}
		}
	}
	if fd.Type.Params != nil {
		for _, f := range fd.Type.Params.List {
			for _, id := range f.Names {
				if inf.Defs[id] == types.Object(v) {
					return false
				}
			}
		}
	}
	return true
}
