package rules

import (
	"go/ast"
	"go/token"
	"go/types"
	"sort"
	"strings"

	"verif/checker/core"
)

// Rules added after the ninth seeding round.

func init() {
	core.Register(&core.Rule{
		ID:    "R04.16",
		Title: "whether a request body is decoded never depends on the body",
		Text: "In the handlers registerAction and registerMethodWithBody install, every path to the call of the resource implementation has either decoded the body (UnmarshalRestLi, or the GenericUnmarshaler the registration was given) or taken the edge on which IsEmptyRecord(params) holds. " +
			"No other condition (the length or the content of the body) may skip the decoder: the parameter type of a generated action is a pointer, so an implementation reached that way is handed nil (a recovered panic and a 5xx for an empty body; " +
			"lost, all-optional parameters for `{}`), and an empty body sent to an action with required parameters is no longer answered with 400.",
		Props: []string{"C04", "C02", "C05"},
		Floor: map[string]int{"v2": 2, "root": 2},
		Run:   runR0416,
	})
	core.Register(&core.Rule{
		ID:    "R06.11",
		Title: "a value of unknown shape is skipped as a whole",
		Text: "In restlicodec (*jlexer.Lexer).Skip, which consumes ONE token, is called only where IsNull() on the same lexer is known to hold (a null is one token), and jsonReader.Skip — what readRecord calls on a field the schema does not know — reaches SkipRecursive on every return. " +
			"Skipping one token of an object or array leaves the lexer inside the value: the document fails to parse, the fields after the unknown one are lost and no missing-field report is produced.",
		Props: []string{"C06", "C04", "C01"},
		Floor: map[string]int{"v2": 4, "root": 4},
		Run:   runR0611,
	})
	core.Register(&core.Rule{
		ID:    "R05.10",
		Title: "a registration finds its node by walking all of its segments",
		Text: "Every return of pathNode.subNode comes after the loop over the `segments` parameter, and the function stores into nothing but the subNodes map of a node, its own locals and the fields of a node held in one of its locals: the node a method is registered on is determined by the whole segment list. " +
			"A remembered `last node` keyed by less than the whole list files the methods of groups/{id}/items under users/{id}/items: a registered method answers 404 and an unregistered one invokes another resource's code.",
		Props: []string{"C05"},
		Floor: map[string]int{"v2": 1, "root": 1},
		Run:   runR0510,
	})
}

func runR0416(c *core.Ctx) {
	for _, anchor := range []string{"registerAction", "registerMethodWithBody"} {
		runR0416On(c, anchor)
	}
}

func runR0416On(c *core.Ctx, anchor string) {
	const rel = "restli"
	inf := info(c, rel)
	_, fd := mustDecl(c, rel, anchor)
	// the resource implementation: a parameter of function type
	impls := map[types.Object]bool{}
	for _, f := range fd.Type.Params.List {
		for _, n := range f.Names {
			if o := inf.Defs[n]; o != nil {
				// the implementation is the function value whose first argument is the request context
				if sig, ok := o.Type().Underlying().(*types.Signature); ok && sig.Params().Len() > 0 {
					if nn := namedOf(sig.Params().At(0).Type()); nn != nil && core.NameOf(nn.Obj()) == "RequestContext" {
						impls[o] = true
					}
				}
			}
		}
	}
	callsImpl := func(x ast.Node) *ast.CallExpr {
		for _, call := range core.CallsIn(x) {
			if o := core.ObjOf(inf, call.Fun); o != nil && impls[o] {
				return call
			}
		}
		return nil
	}
	var decodes func(x ast.Node, depth int) bool
	decodes = func(x ast.Node, depth int) bool {
		for _, call := range core.CallsIn(x) {
			// the decoder handed to the registration as a value (restlicodec.GenericUnmarshaler)
			if tv, ok := inf.Types[call.Fun]; ok {
				if nn := namedOf(tv.Type); nn != nil && core.NameOf(nn.Obj()) == "GenericUnmarshaler" {
					return true
				}
			}
			cf := core.Callee(inf, call)
			if cf == nil {
				continue
			}
			if core.NameOf(cf) == "UnmarshalRestLi" {
				return true
			}
			if depth > 0 && c.M.InModule(cf.Pkg()) {
				if d := c.M.Decl(cf.Origin()); d != nil && d.Body != nil && d != fd && decodes(d.Body, depth-1) {
					return true
				}
			}
		}
		return false
	}
	n := 0
	for _, lit := range core.AllFuncLits(fd.Body) {
		direct := false
		core.WalkNoFuncLit(lit.Body, func(x ast.Node) bool {
			if call, ok := x.(*ast.CallExpr); ok {
				if o := core.ObjOf(inf, call.Fun); o != nil && impls[o] {
					direct = true
				}
			}
			return true
		})
		if !direct {
			continue
		}
		n++
		var errVar types.Object
		if lit.Type.Results != nil {
			for _, f := range lit.Type.Results.List {
				for _, nm := range f.Names {
					if o := inf.Defs[nm]; o != nil && core.IsErrorType(o.Type()) {
						errVar = o
					}
				}
			}
		}
		var bad []string
		seen := map[ast.Node]bool{}
		a := &core.Automaton{
			Node: func(st int, x ast.Node) int {
				if _, isLit := x.(*ast.FuncLit); isLit {
					return st
				}
				if decodes(x, 2) {
					return 1
				}
				if st == 0 {
					if call := callsImpl(x); call != nil && !seen[call] {
						seen[call] = true
						bad = append(bad, c.M.Position(call.Pos()))
					}
				}
				return st
			},
			Edge: func(st int, facts []core.Fact) (int, bool) {
				for _, f := range facts {
					if call, ok := core.Unparen(f.Expr).(*ast.CallExpr); ok && f.Val && f.Tag == nil {
						if cf := core.Callee(inf, call); cf != nil && core.NameOf(cf) == "IsEmptyRecord" {
							return 1, true
						}
					}
				}
				return st, true
			},
		}
		if errVar != nil {
			a = core.TrackNil(inf, errVar, a)
		}
		core.NewFlow(c.M, inf, lit.Body).Run(a)
		sort.Strings(bad)
		c.Check(len(bad) == 0, rel, anchor, "the implementation is called with a decoded body, or the parameter type is EmptyRecord", lit.Pos(), "",
			"the implementation is called at "+strings.Join(bad, ", ")+" on a path that neither decoded the body nor established IsEmptyRecord(params): a condition other than the parameter type skips the decoder and the implementation is handed the zero value (nil for generated params)")
	}
	if n == 0 {
		c.Unknown(rel, anchor, "handler that calls the resource implementation", fd.Pos(), "none found")
	}
}

func runR0611(c *core.Ctx) {
	const rel = "restlicodec"
	inf := info(c, rel)
	isLexer := func(f *types.Func, name string) bool {
		return f != nil && f.Pkg() != nil && strings.HasSuffix(f.Pkg().Path(), "easyjson/jlexer") && core.RecvNamed(f) != nil &&
			core.NameOf(core.RecvNamed(f).Obj()) == "Lexer" && f.Name() == name
	}
	n := 0
	for _, fd := range c.M.FuncDecls(rel) {
		if fd.Body == nil || strings.HasSuffix(c.M.Fset.File(fd.Pos()).Name(), "_test.go") {
			continue
		}
		par := core.Parents(fd.Body)
		for _, call := range core.CallsIn(fd.Body) {
			if !isLexer(core.Callee(inf, call), "Skip") {
				continue
			}
			n++
			sel, _ := core.Unparen(call.Fun).(*ast.SelectorExpr)
			guarded := sel != nil && core.GuardedByFact(inf, par, core.EnclosingStmt(par, call), func(f core.Fact) bool {
				t, ok := core.Unparen(f.Expr).(*ast.CallExpr)
				if !ok || !f.Val || f.Tag != nil || !isLexer(core.Callee(inf, t), "IsNull") {
					return false
				}
				ts, _ := core.Unparen(t.Fun).(*ast.SelectorExpr)
				return ts != nil && core.SameExpr(inf, ts.X, sel.X)
			}, nil)
			c.Check(guarded, rel, core.DeclName(fd), "one-token Skip #"+itoa(ordinal(fd, call))+" is applied to a null only", call.Pos(), "",
				"(*jlexer.Lexer).Skip consumes one token and is called where IsNull() is not known to hold: for an object or array only the opening delimiter is consumed")
		}
	}
	// the Reader's Skip
	for _, fd := range c.M.FuncDecls(rel) {
		if fd.Body == nil || fd.Recv == nil || fd.Name.Name != "Skip" && core.NameOf(inf.Defs[fd.Name]) != "Skip" {
			continue
		}
		f, _ := inf.Defs[fd.Name].(*types.Func)
		if f == nil || core.RecvNamed(f) == nil || core.NameOf(core.RecvNamed(f).Obj()) != "jsonReader" {
			continue
		}
		n++
		rec := func(x ast.Node) bool {
			return hasCall(inf, x, func(cf *types.Func, _ *ast.CallExpr) bool { return isLexer(cf, "SkipRecursive") })
		}
		// a return taken where IsNull() holds needs one token only
		var early []ast.Node
		seenRet := map[ast.Node]bool{}
		core.NewFlow(c.M, inf, fd.Body).Run(&core.Automaton{
			AtEnd: true,
			Node: func(st int, x ast.Node) int {
				if rec(x) {
					return 1
				}
				if _, ok := x.(*ast.ReturnStmt); ok && st == 0 && !seenRet[x] {
					seenRet[x] = true
					early = append(early, x)
				}
				return st
			},
			Edge: func(st int, facts []core.Fact) (int, bool) {
				for _, f := range facts {
					if t, ok := core.Unparen(f.Expr).(*ast.CallExpr); ok && f.Val && f.Tag == nil && isLexer(core.Callee(inf, t), "IsNull") {
						return 1, true
					}
				}
				return st, true
			},
		})
		sort.Slice(early, func(i, j int) bool { return early[i].Pos() < early[j].Pos() })
		where := ""
		if len(early) > 0 {
			where = c.M.Position(early[0].Pos())
		}
		c.Check(len(early) == 0, rel, core.DeclName(fd), "every return has skipped the whole value (SkipRecursive)", fd.Pos(), "",
			"the return at "+where+" is reached without SkipRecursive: an unknown field holding an object or array is not consumed as a whole")
	}
	if n == 0 {
		c.Unknown(rel, "-", "lexer Skip calls", token.NoPos, "none found")
	}
}

func itoa(i int) string {
	if i == 0 {
		return "0"
	}
	s := ""
	neg := i < 0
	if neg {
		i = -i
	}
	for i > 0 {
		s = string(rune('0'+i%10)) + s
		i /= 10
	}
	if neg {
		s = "-" + s
	}
	return s
}

func runR0510(c *core.Ctx) {
	const rel = "restli"
	inf := info(c, rel)
	_, fd := mustDecl(c, rel, "(*pathNode).subNode")
	var segs types.Object
	for _, f := range fd.Type.Params.List {
		if _, isSlice := inf.Types[f.Type].Type.Underlying().(*types.Slice); isSlice {
			for _, nm := range f.Names {
				segs = inf.Defs[nm]
			}
		}
	}
	if segs == nil {
		c.Unknown(rel, "(*pathNode).subNode", "segments parameter", fd.Pos(), "no slice parameter")
		return
	}
	// the expressions ranged (or indexed in a for loop bounded by len) over the parameter
	walked := map[ast.Node]bool{}
	ast.Inspect(fd.Body, func(x ast.Node) bool {
		switch s := x.(type) {
		case *ast.RangeStmt:
			if core.ObjOf(inf, s.X) == segs {
				walked[s.X] = true
			}
		case *ast.ForStmt:
			if s.Cond != nil {
				ast.Inspect(s.Cond, func(y ast.Node) bool {
					if call, ok := y.(*ast.CallExpr); ok && len(call.Args) == 1 {
						if id, ok := core.Unparen(call.Fun).(*ast.Ident); ok && id.Name == "len" && core.ObjOf(inf, call.Args[0]) == segs {
							walked[s.Cond] = true
						}
					}
					return true
				})
			}
		}
		return true
	})
	isWalk := func(x ast.Node) bool {
		if walked[x] {
			return true
		}
		found := false
		ast.Inspect(x, func(y ast.Node) bool {
			if y != nil && walked[y] {
				found = true
			}
			return !found
		})
		return found
	}
	// a return taken where len(segments) == 0 is known has walked all (zero) segments
	emptyKnown := func(f core.Fact) bool {
		be, ok := core.Unparen(f.Expr).(*ast.BinaryExpr)
		if !ok || f.Tag != nil {
			return false
		}
		call, ok := core.Unparen(be.X).(*ast.CallExpr)
		if !ok || len(call.Args) != 1 || core.ObjOf(inf, call.Args[0]) != segs {
			return false
		}
		if id, ok := core.Unparen(call.Fun).(*ast.Ident); !ok || id.Name != "len" {
			return false
		}
		k := core.ConstOf(inf, be.Y)
		if k == nil {
			return false
		}
		switch be.Op.String() + k.ExactString() {
		case "==0", "<1", "<=0":
			return f.Val
		case "!=0", ">0", ">=1":
			return !f.Val
		}
		return false
	}
	var early []ast.Node
	seenRet := map[ast.Node]bool{}
	core.NewFlow(c.M, inf, fd.Body).Run(&core.Automaton{
		AtEnd: true,
		Node: func(st int, x ast.Node) int {
			if _, ok := x.(*ast.ReturnStmt); ok && st == 0 && !seenRet[x] {
				seenRet[x] = true
				early = append(early, x)
			}
			if isWalk(x) {
				return 1
			}
			return st
		},
		Edge: func(st int, facts []core.Fact) (int, bool) {
			for _, f := range facts {
				if emptyKnown(f) {
					return 1, true
				}
			}
			return st, true
		},
	})
	sort.Slice(early, func(i, j int) bool { return early[i].Pos() < early[j].Pos() })
	where := ""
	if len(early) > 0 {
		where = c.M.Position(early[0].Pos())
	}
	c.Check(len(walked) > 0 && len(early) == 0, rel, "(*pathNode).subNode", "every return comes after the walk over all segments", fd.Pos(), "",
		"the return at "+where+" is reached without the loop over "+segs.Name()+" (or no such loop exists): the node is not determined by the whole segment list")
	// stores: only into a subNodes map / the walking local / fields of a node created here
	tt, _ := mustObj(c, rel, "pathNode").(*types.TypeName)
	var bad []string
	ast.Inspect(fd.Body, func(x ast.Node) bool {
		as, ok := x.(*ast.AssignStmt)
		if !ok {
			return true
		}
		for _, l := range as.Lhs {
			lu := core.Unparen(l)
			switch e := lu.(type) {
			case *ast.Ident:
				if v, isVar := core.ObjOf(inf, e).(*types.Var); e.Name == "_" || isVar && bodyLocal(inf, fd, v) {
					continue
				}
			case *ast.IndexExpr:
				if _, isF := fieldNamed(inf, e.X, tt, "subNodes"); isF {
					continue
				}
			case *ast.SelectorExpr:
				if _, isF := fieldNamed(inf, e, tt, "subNodes"); isF {
					continue
				}
				// a field of a node held in a local of this function (the node being created or walked)
				if v, isVar := core.ObjOf(inf, e.X).(*types.Var); isVar && bodyLocal(inf, fd, v) {
					if nn := namedOf(v.Type()); nn != nil && nn.Obj() == tt {
						continue
					}
				}
			}
			bad = append(bad, c.M.Position(as.Pos())+": "+core.ExprString(l))
		}
		return true
	})
	sort.Strings(bad)
	c.Check(len(bad) == 0, rel, "(*pathNode).subNode", "the walk stores into subNodes maps and its own locals only", fd.Pos(), "",
		strings.Join(bad, "; ")+" is written during a registration: state kept between registrations makes the node depend on the order of Register calls")
}
