#!/bin/bash
# Runs the CURRENT /repo/v2 generator (through /verif/bin/gen-v2, rebuilt first) on every manifest of the corpus.
#
# For every /verif/corpus/v2/<name>.json:
#   1. generate into a scratch dir (with /verif/corpus/v2/overlays/<name> as overlay when it exists),
#   2. generate a second time into another dir and `diff -r` the two trees (determinism),
#   3. `go vet ./...` in the generated module (type-checks every package, including the root `package main`
#      all_imports_test.gr.go, without linking anything).
# Prints `OK <name>` or `FAIL <name>: <reason>` per manifest. Also checks that regenerating the checked-in
# /repo/v2/restlidata/generated manifest reproduces the checked-in *.gr.go files (`OK|FAIL regen-restlidata`).
# Afterwards every /verif/corpus/v2/failing/<name>.json (inputs on which the generator is KNOWN to misbehave) is run and
# reported as `XFAIL <name>: <reason>` (still failing, expected) or `XPASS <name>` (no longer failing); these lines are
# informational and never change the exit status.
#
# Exit status: 0 iff no FAIL line was printed.
#
# usage: check-corpus.sh [-k] [name ...]     -k keeps the scratch dir; names restrict the main loop

export GOFLAGS=-mod=mod GOPROXY=off GOSUMDB=off GOTOOLCHAIN=local CGO_ENABLED=0
unset GOWORK

CORPUS=/verif/corpus/v2
GEN=/verif/bin/gen-v2
NDRUNS=${NDRUNS:-8} # generations per failing manifest when looking for nondeterminism

keep=0
if [ "$1" = "-k" ]; then keep=1; shift; fi

mkdir -p /root/scratch
SCRATCH=$(mktemp -d /root/scratch/check-corpus.XXXXXX)
cleanup() {
  if [ $keep = 0 ]; then chmod -R u+w "$SCRATCH" 2>/dev/null; rm -rf "$SCRATCH"; else echo "scratch kept: $SCRATCH"; fi
}
trap cleanup EXIT

rc=0
fail() { echo "FAIL $1: $2"; rc=1; }

if ! (cd /verif/gen/v2 && go build -o "$GEN" .) >"$SCRATCH/build.log" 2>&1; then
  fail gen-v2 "cannot build harness: $(head -3 "$SCRATCH/build.log" | tr '\n' ' ')"
  exit 1
fi

# first_error <logfile>: the most telling line of a generator / vet log
first_error() {
  local l
  for pat in 'Failed to write code file|generator PANIC' 'gen-v2: FAILED' \
    '\.go:[0-9]+:|collision|invalid input file|not an importable'; do
    l=$(grep -v '^#' "$1" 2>/dev/null | grep -m1 -E "$pat" | sed 's/^[: \t]*//' | cut -c1-300)
    if [ -n "$l" ]; then echo "$l"; return; fi
  done
  head -1 "$1" | cut -c1-300
}

# gen <manifest> <outdir> <overlay-or-empty> <log>
gen() {
  chmod -R u+w "$2" 2>/dev/null
  rm -rf "$2"
  if [ -n "$3" ]; then "$GEN" "$1" "$2" "$3" >"$4" 2>&1; else "$GEN" "$1" "$2" >"$4" 2>&1; fi
}

# check <name> <manifest> -> prints nothing, returns 0 and sets REASON on failure
check() {
  local name=$1 manifest=$2 overlay=""
  [ -d "$CORPUS/overlays/$name" ] && overlay="$CORPUS/overlays/$name"
  local a="$SCRATCH/$name.a" b="$SCRATCH/$name.b"
  if ! gen "$manifest" "$a" "$overlay" "$SCRATCH/$name.gen.log"; then
    REASON="generator failed: $(first_error "$SCRATCH/$name.gen.log")"
    return 1
  fi
  if ! gen "$manifest" "$b" "$overlay" "$SCRATCH/$name.gen2.log"; then
    REASON="generator failed on second run: $(first_error "$SCRATCH/$name.gen2.log")"
    return 1
  fi
  if ! diff -r "$a" "$b" >"$SCRATCH/$name.det.diff" 2>&1; then
    REASON="nondeterministic output: $(grep -c -E '^(diff|Only in)' "$SCRATCH/$name.det.diff") differing files between two runs"
    return 1
  fi
  if ! (cd "$a" && go vet ./...) >"$SCRATCH/$name.vet.log" 2>&1; then
    REASON="go vet: $(first_error "$SCRATCH/$name.vet.log")"
    return 1
  fi
  return 0
}

# ---- main corpus
if [ $# -gt 0 ]; then
  names=("$@")
else
  names=()
  for f in "$CORPUS"/*.json; do names+=("$(basename "$f" .json)"); done
fi
for name in "${names[@]}"; do
  if [ ! -f "$CORPUS/$name.json" ]; then fail "$name" "no such manifest"; continue; fi
  if check "$name" "$CORPUS/$name.json"; then echo "OK $name"; else fail "$name" "$REASON"; fi
done

# ---- regeneration of the checked-in restlidata bindings
if [ $# -eq 0 ]; then
  ref=/repo/v2/restlidata/generated
  out="$SCRATCH/regen"
  if ! gen "$ref/go-restli-manifest.gr.json" "$out" "" "$SCRATCH/regen.log"; then
    fail regen-restlidata "generator failed: $(first_error "$SCRATCH/regen.log")"
  else
    (cd "$ref" && find . -name '*.gr.go' | sort) >"$SCRATCH/regen.ref.list"
    (cd "$out" && find . -name '*.gr.go' | sort) >"$SCRATCH/regen.out.list"
    bad=""
    if ! diff "$SCRATCH/regen.ref.list" "$SCRATCH/regen.out.list" >/dev/null; then bad="file lists differ;"; fi
    n=0
    while read -r f; do
      n=$((n + 1))
      cmp -s "$ref/$f" "$out/$f" || bad="$bad $f differs;"
    done <"$SCRATCH/regen.ref.list"
    cmp -s "$ref/go-restli-manifest.gr.json" "$out/go-restli-manifest.gr.json" || bad="$bad manifest differs;"
    if [ -z "$bad" ]; then
      echo "OK regen-restlidata ($n *.gr.go files and the manifest identical to $ref)"
    else
      fail regen-restlidata "$bad"
    fi
  fi
fi

# ---- known generator failures (informational)
if [ $# -eq 0 ] && [ -d "$CORPUS/failing" ]; then
  for f in "$CORPUS"/failing/*.json; do
    [ -f "$f" ] || continue
    name=$(basename "$f" .json)
    if check "$name" "$f"; then
      # compiled and two runs agreed: look harder for nondeterminism
      nd=0
      for i in $(seq 1 "$NDRUNS"); do
        gen "$f" "$SCRATCH/$name.b" "" "$SCRATCH/$name.gen2.log" || break
        if ! diff -r "$SCRATCH/$name.a" "$SCRATCH/$name.b" >/dev/null 2>&1; then nd=1; break; fi
      done
      if [ $nd = 1 ]; then
        echo "XFAIL $name: nondeterministic output (run $((i + 2)) differs from run 1)"
      else
        echo "XPASS $name"
      fi
    else
      echo "XFAIL $name: $REASON"
    fi
  done
fi

exit $rc
