#!/usr/bin/env python3
"""Source of the hand-written go-restli v2 manifest corpus.

The JSON files under /verif/corpus/v2 are the deliverable and are checked in; this script only exists so that the
manifests can be written in a compact notation and regenerated consistently (`python3 mkcorpus.py` rewrites every
/verif/corpus/v2/*.json and v2/failing/*.json). The field spelling follows what the Java spec parser emits (lowerCamel
names, see FORMAT.md).
"""
import json
import os
import sys

HERE = os.path.dirname(os.path.abspath(__file__))
OUT = os.path.join(HERE, "v2")

EMPTY_RECORD = ("com.linkedin.restli.common", "EmptyRecord")

# ---------------------------------------------------------------------------------------------------------- notation

INT32, INT64, F32, F64, BOOL, STRING, BYTES = (
    {"primitive": p} for p in ("int32", "int64", "float32", "float64", "bool", "string", "bytes"))
PRIMS = [("int32", INT32), ("int64", INT64), ("float32", F32), ("float64", F64), ("bool", BOOL), ("string", STRING),
         ("bytes", BYTES)]


def ident(ns, name):
    return {"name": name, "namespace": ns}


def R(ns, name):
    return {"reference": ident(ns, name)}


def A(t):
    return {"array": t}


def M(t):
    return {"map": t}


RAW = {"rawRecord": True}

_NODEFAULT = object()


def F(name, t, opt=False, default=_NODEFAULT, raw_default=None, doc=""):
    """A record field / method parameter. `default` is a python value that is JSON encoded into the defaultValue
    string; `raw_default` is the literal defaultValue string."""
    f = {"name": name, "doc": doc, "type": t, "isOptional": bool(opt)}
    if raw_default is not None:
        f["defaultValue"] = raw_default
    elif default is not _NODEFAULT:
        f["defaultValue"] = json.dumps(default, ensure_ascii=False, separators=(",", ":"))
    return f


class Manifest:
    def __init__(self, name, package_root=None):
        self.name = name
        self.src = name + ".json"
        self.m = {
            "packageRoot": package_root or "verifcorpus/" + name.replace("-", ""),
            "inputDataTypes": [],
            "dependencyDataTypes": [],
            "resources": [],
        }

    def _named(self, ns, name, doc):
        return {"name": name, "namespace": ns, "sourceFile": self.src, "doc": doc}

    def _add(self, kind, body):
        self.m["inputDataTypes"].append({kind: body})
        return R(body["namespace"], body["name"])

    def record(self, ns, name, fields, includes=(), doc=""):
        b = self._named(ns, name, doc)
        b["includes"] = [ident(*i) if isinstance(i, tuple) else i["reference"] for i in includes]
        b["fields"] = list(fields)
        return self._add("record", b)

    def enum(self, ns, name, symbols, docs=None, doc=""):
        b = self._named(ns, name, doc)
        b["symbols"] = list(symbols)
        b["symbolToDoc"] = dict(docs or {})
        return self._add("enum", b)

    def fixed(self, ns, name, size, doc=""):
        b = self._named(ns, name, doc)
        b["size"] = size
        return self._add("fixed", b)

    def typeref(self, ns, name, prim, doc="", custom=None):
        b = self._named(ns, name, doc)
        b["type"] = prim["primitive"] if isinstance(prim, dict) else prim
        if custom is not None:
            b["isCustom"] = custom
        return self._add("typeref", b)

    def union(self, ns, name, members, has_null=False, doc=""):
        """members: list of (alias, type)"""
        b = self._named(ns, name, doc)
        b["union"] = {"hasNull": bool(has_null), "members": [{"type": t, "alias": a} for a, t in members]}
        return self._add("standaloneUnion", b)

    def complex_key(self, ns, name, key, params=None, doc=""):
        b = self._named(ns, name, doc or "Complex Key for " + name)
        b["key"] = key["reference"]
        b["params"] = params["reference"] if params else ident(*EMPTY_RECORD)
        return self._add("complexKey", b)

    def as_dependency(self, ref):
        """move an already declared type from inputDataTypes to dependencyDataTypes"""
        want = ref["reference"]
        for dt in self.m["inputDataTypes"]:
            body = next(iter(dt.values()))
            if body["name"] == want["name"] and body["namespace"] == want["namespace"]:
                self.m["inputDataTypes"].remove(dt)
                self.m["dependencyDataTypes"].append(dt)
                return ref
        raise KeyError(want)

    def resource(self, ns, segments, schema, methods, read_only=(), create_only=(), doc=""):
        """segments: list of (resourceName, None | (keyName, keyType))"""
        r = {
            "namespace": ns,
            "doc": doc,
            "sourceFile": self.src,
            "resourcePathSegments": [
                {"resourceName": n, "pathKey": None if k is None else {"name": k[0], "type": k[1]}}
                for n, k in segments],
            "resourceSchema": schema,
            "methods": list(methods),
            "readOnlyFields": list(read_only),
            "createOnlyFields": list(create_only),
        }
        self.m["resources"].append(r)
        return r

    def write(self, subdir=""):
        d = os.path.join(OUT, subdir)
        os.makedirs(d, exist_ok=True)
        with open(os.path.join(d, self.name + ".json"), "w") as f:
            json.dump(self.m, f, indent=2, ensure_ascii=True)
            f.write("\n")


def method(mtype, name, on_entity, params=(), paging=False, ret=None, metadata=None, return_entity=False, doc=""):
    return {
        "methodType": mtype,
        "name": name,
        "doc": doc,
        "onEntity": bool(on_entity),
        "params": list(params),
        "isPagingSupported": bool(paging),
        "return": ret,
        "metadata": metadata,
        "returnEntity": bool(return_entity),
    }


# rest methods that address one entity of a collection (path key of the last segment is part of the URL)
ENTITY_REST_METHODS = {"get", "update", "partial_update", "delete"}


def rest(name, schema, params=(), collection=True, return_entity=False, paging=False):
    return method("REST_METHOD", name, collection and name in ENTITY_REST_METHODS, params, paging, schema, None,
                  return_entity)


def finder(name, schema, params=(), paging=False, metadata=None, doc=""):
    return method("FINDER", name, False, params, paging, schema, metadata, False, doc)


def action(name, on_entity=False, params=(), ret=None, doc=""):
    return method("ACTION", name, on_entity, params, False, ret, None, False, doc)


ALL_COLLECTION_METHODS = ["get", "create", "update", "partial_update", "delete", "get_all", "batch_get",
                          "batch_create", "batch_update", "batch_partial_update", "batch_delete"]

MANIFESTS = []


def manifest(fn):
    MANIFESTS.append(fn)
    return fn


# ---------------------------------------------------------------------------------------------------------- t-prims

@manifest
def t_prims():
    m = Manifest("t-prims")
    ns = "tprims"
    m.record(ns, "AllRequired", [F("f" + n.capitalize(), t, doc="required " + n) for n, t in PRIMS],
             doc="Every primitive as a required field")
    m.record(ns, "AllOptional", [F("f" + n.capitalize(), t, opt=True) for n, t in PRIMS],
             doc="Every primitive as an optional field")
    m.record(ns, "AllDefault", [
        F("fInt32", INT32, default=42),
        F("fInt64", INT64, default=-42),
        F("fFloat32", F32, default=1.5),
        F("fFloat64", F64, default=-2.25),
        F("fBool", BOOL, default=True),
        F("fString", STRING, default="hello"),
        F("fBytes", BYTES, default="abc"),
    ], doc="Every primitive with a plain default value")
    m.record(ns, "NumericExtremes", [
        F("int32Max", INT32, default=2147483647),
        F("int32Min", INT32, default=-2147483648),
        F("int32Zero", INT32, default=0),
        F("int64Max", INT64, default=9223372036854775807),
        F("int64Min", INT64, default=-9223372036854775808),
        F("int64Zero", INT64, default=0),
        F("float32Max", F32, raw_default="3.4028235e38"),
        F("float32Neg", F32, default=-0.5),
        F("float32Zero", F32, default=0),
        F("float32Int", F32, default=7),
        F("float64Huge", F64, raw_default="1e300"),
        F("float64NegHuge", F64, raw_default="-1E+300"),
        F("float64Tiny", F64, raw_default="5e-324"),
        F("float64Zero", F64, raw_default="0.0"),
        F("float64Int", F64, default=3),
        F("boolFalse", BOOL, default=False),
    ], doc="Defaults at the extremes of every numeric type")
    m.record(ns, "StringDefaults", [
        F("empty", STRING, default=""),
        F("quotes", STRING, default="she said \"hi\" and 'bye' `tick`"),
        F("escapes", STRING, default="tab\there\nnewline\\backslash\r\u0000nul/slash"),
        F("unicode", STRING, default="héllo wörld ☃ \U0001F600 世界"),
        F("asciiEscaped", STRING, raw_default="\"\\u0041\\u00e9\\ud83d\\ude00\""),
        F("percent", STRING, default="100% %d %s {}[],:"),
    ], doc="String defaults with escapes, quotes and unicode")
    m.record(ns, "BytesDefaults", [
        F("empty", BYTES, default=""),
        F("ascii", BYTES, default="some bytes"),
        F("lowHigh", BYTES, default="\u0000\u0001\u007f\u0080ÿ"),
        F("quotes", BYTES, default="\"'\\"),
    ], doc="Bytes defaults (pegasus encodes each byte as one char <= U+00FF)")
    m.record(ns, "OptionalWithDefault", [
        F("fInt32", INT32, opt=True, default=1),
        F("fString", STRING, opt=True, default="x"),
        F("fBytes", BYTES, opt=True, default="y"),
        F("required", STRING),
    ], doc="Fields that are both optional and defaulted, next to a required one")
    m.record(ns, "Mixed", [
        F("a", INT32), F("b", INT64, opt=True), F("c", F64, default=0.25), F("d", BOOL), F("e", STRING, opt=True),
        F("f", BYTES, default="\u0001"), F("g", F32),
    ])
    return m


# ---------------------------------------------------------------------------------------------------------- t-named

@manifest
def t_named():
    m = Manifest("t-named")
    ns = "tnamed"
    color = m.enum(ns, "Color", ["RED", "GREEN", "BLUE"], {"RED": "The colour red", "BLUE": "multi\nline doc"},
                   doc="A plain enum")
    # symbols that need ExportedIdentifier escaping / are Go keywords / lower case
    odd = m.enum(ns, "Odd", ["lower", "_under", "With$Dollar", "type", "unknown", "A1"],
                 doc="Enum whose symbols exercise identifier escaping")
    single = m.enum(ns, "Single", ["ONLY"])
    f1 = m.fixed(ns, "Fixed1", 1, doc="one byte")
    f16 = m.fixed(ns, "Fixed16", 16, doc="sixteen bytes")
    refs = []
    for n, t in PRIMS:
        refs.append((n, m.typeref(ns, n.capitalize() + "Ref", t, doc="typeref of " + n)))

    # types listed under dependencyDataTypes (registered after, but generated like, the input types)
    dep_enum = m.as_dependency(m.enum(ns + ".dep", "DepEnum", ["X", "Y"], doc="declared in dependencyDataTypes"))
    dep_rec = m.as_dependency(m.record(ns + ".dep", "DepRecord", [F("e", dep_enum, default="Y")]))
    m.record(ns, "UsesDependencies", [F("e", dep_enum), F("r", dep_rec, opt=True)])

    m.record(ns, "NamedRequired",
             [F("color", color), F("odd", odd), F("single", single), F("fixed1", f1), F("fixed16", f16)]
             + [F(n + "Ref", r) for n, r in refs])
    m.record(ns, "NamedOptional",
             [F("color", color, opt=True), F("odd", odd, opt=True), F("single", single, opt=True),
              F("fixed1", f1, opt=True), F("fixed16", f16, opt=True)]
             + [F(n + "Ref", r, opt=True) for n, r in refs])
    defaults = {"int32": -7, "int64": 9223372036854775807, "float32": 0.125, "float64": 1e300, "bool": True,
                "string": "a \"quoted\" ☃", "bytes": "\u0000ÿz"}
    m.record(ns, "NamedDefault",
             [F("color", color, default="GREEN"), F("oddLower", odd, default="lower"),
              F("oddDollar", odd, default="With$Dollar"), F("oddUnder", odd, default="_under"),
              F("oddKeyword", odd, default="type"), F("oddUnknown", odd, default="unknown"),
              F("single", single, default="ONLY"),
              F("fixed1", f1, default="\u0000"), F("fixed1High", f1, default="ÿ"),
              F("fixed16", f16, default="0123456789abcdef")]
             + [F(n + "Ref", r, default=defaults[n]) for n, r in refs])
    return m


# ---------------------------------------------------------------------------------------------------------- t-nest

@manifest
def t_nest():
    m = Manifest("t-nest")
    ns = "tnest"
    enum = m.enum(ns, "Suit", ["HEARTS", "SPADES"])
    fixed = m.fixed(ns, "Fixed4", 4)
    tref = m.typeref(ns, "Celsius", F64)
    bref = m.typeref(ns, "Blob", BYTES)
    leaf = m.record(ns, "Leaf", [F("id", INT64), F("label", STRING, opt=True), F("weight", F64, default=1.0)])
    union = m.union(ns, "Choice", [("int", INT32), ("string", STRING), (ns + ".Leaf", leaf)])
    kinds = [(n, t) for n, t in PRIMS] + [("enum", enum), ("fixed", fixed), ("typeref", tref),
                                          ("bytesTyperef", bref), ("record", leaf), ("union", union)]

    m.record(ns, "Arrays", [F(n + "s", A(t)) for n, t in kinds], doc="array of every element kind (required)")
    m.record(ns, "Maps", [F(n + "s", M(t)) for n, t in kinds], doc="map of every element kind (required)")
    m.record(ns, "OptionalContainers",
             [F(n + "Array", A(t), opt=True) for n, t in kinds] + [F(n + "Map", M(t), opt=True) for n, t in kinds])
    m.record(ns, "Deep", [
        F("mapArrayMapInt", M(A(M(INT32)))),
        F("arrayMapArrayRecord", A(M(A(leaf)))),
        F("arrayArrayArrayBytes", A(A(A(BYTES)))),
        F("mapMapMapUnion", M(M(M(union)))),
        F("arrayMapFixed", A(M(fixed)), opt=True),
        F("mapArrayEnum", M(A(enum)), opt=True),
        F("mapArrayTyperef", M(A(tref)), default={"k": [1.5, -2]}),
        F("arrayArrayString", A(A(STRING)), default=[["a", "b"], ["c"]]),
    ], doc="containers nested three deep")
    m.record(ns, "EmptyDefaults", [
        F("ints", A(INT32), default=[]),
        F("intsSpaced", A(INT32), raw_default="[  ]"),
        F("strings", M(STRING), default={}),
        F("stringsSpaced", M(STRING), raw_default="{ }"),
        F("records", A(leaf), default=[]),
        F("recordMap", M(leaf), default={}),
        F("unions", A(union), default=[]),
        F("deep", M(A(M(INT32))), default={}),
    ], doc="containers defaulted to [] and {}")
    m.record(ns, "NonEmptyDefaults", [
        F("ints", A(INT32), default=[1, 2, 3]),
        F("longs", A(INT64), default=[-9223372036854775808, 9223372036854775807]),
        F("doubles", A(F64), default=[0.5, 1e300]),
        F("bools", A(BOOL), default=[True, False]),
        F("strings", A(STRING), default=["", "a\"b", "☃"]),
        F("bytes", A(BYTES), default=["", "\u0000ÿ"]),
        F("enums", A(enum), default=["HEARTS", "SPADES"]),
        F("fixeds", A(fixed), default=["abcd"]),
        F("typerefs", A(tref), default=[36.6]),
        F("records", A(leaf), default=[{"id": 1}, {"id": 2, "label": "two", "weight": 2.5}]),
        F("unions", A(union), default=[{"int": 1}, {"string": "s"}, {ns + ".Leaf": {"id": 3}}]),
        F("intMap", M(INT32), default={"one": 1, "two": 2}),
        F("stringMap", M(STRING), default={"k": "v", "": ""}),
        F("bytesMap", M(BYTES), default={"k": "bytes"}),
        F("enumMap", M(enum), default={"h": "HEARTS"}),
        F("fixedMap", M(fixed), default={"f": "wxyz"}),
        F("typerefMap", M(bref), default={"b": "blob"}),
        F("recordMap", M(leaf), default={"a": {"id": 1}}),
        F("unionMap", M(union), default={"u": {"int": 5}}),
        F("deep", M(A(M(INT32))), default={"a": [{"b": 1}, {"c": 2, "d": 3}]}),
    ], doc="containers with non-empty defaults")
    m.record(ns, "WithRaw", [
        F("raw", RAW), F("optionalRaw", RAW, opt=True), F("raws", A(RAW)), F("rawMap", M(RAW), opt=True),
    ], doc="rawRecord fields (restlidata.RawRecord)")
    m.record(ns + ".outer", "WithNestedDefaults", [
        F("leaf", leaf, doc="required record whose type has defaults"), F("own", INT32, default=1),
        F("optionalLeaf", leaf, opt=True), F("defaultLeaf", leaf, default={"id": 9, "weight": 0.5}),
        F("choice", union, default={"int": 3}),
    ], doc="record in another package whose constructor chains into Leaf's")
    # NOTE: the generator decides "default is empty" with an UNANCHORED regexp (`\\[ *]` / `{ *}`), so all of the
    # defaults below are silently replaced by the empty container in the generated code. They still compile.
    m.record(ns, "NestedEmptyDefaults", [
        F("arrayOfEmptyArray", A(A(INT32)), default=[[]]),
        F("arrayWithEmptyTail", A(A(INT32)), default=[[1, 2], []]),
        F("mapOfEmptyMap", M(M(STRING)), default={"k": {}}),
        F("stringLooksEmpty", A(STRING), default=["[]"]),
        F("mapStringLooksEmpty", M(STRING), default={"k": "{}"}),
        F("arrayOfEmptyMap", A(M(INT32)), default=[{}]),
    ], doc="non-empty defaults that contain an empty container")
    return m


# ---------------------------------------------------------------------------------------------------------- t-union

@manifest
def t_union():
    m = Manifest("t-union")
    ns = "tunion"
    other = "tunion.other"
    enum = m.enum(ns, "Kind", ["A", "B"])
    fixed = m.fixed(ns, "Fixed2", 2)
    tref = m.typeref(ns, "Meters", F32)
    rec = m.record(ns, "Point", [F("x", INT32), F("y", INT32, default=0)])
    far = m.record(other, "Remote", [F("name", STRING)], doc="record in another namespace")

    # no aliases: the alias is the pegasus member key (primitive name, "array", "map" or the full type name)
    plain = m.union(ns, "Plain", [
        ("int", INT32), ("long", INT64), ("float", F32), ("double", F64), ("boolean", BOOL), ("string", STRING),
        ("bytes", BYTES), (ns + ".Point", rec), (other + ".Remote", far), (ns + ".Kind", enum),
        (ns + ".Fixed2", fixed), (ns + ".Meters", tref), ("array", A(STRING)), ("map", M(rec)),
    ], doc="union without aliases over every member kind")
    aliased = m.union(ns, "Aliased", [
        ("count", INT32), ("otherCount", INT32), ("text", STRING), ("raw", BYTES), ("point", rec),
        ("otherPoint", rec), ("kind", enum), ("hash", fixed), ("distance", tref), ("ints", A(INT32)),
        ("points", A(rec)), ("byName", M(INT64)), ("nested", M(A(M(rec)))), ("type", BOOL),
    ], doc="union with aliases; several members share a type")
    nullable = m.union(ns, "Nullable", [("int", INT32), (ns + ".Point", rec)], has_null=True,
                       doc="union[null, int, Point]")
    nullable_aliased = m.union(ns, "NullableAliased", [("a", STRING), ("b", A(BYTES))], has_null=True)
    single = m.union(ns, "Single", [("string", STRING)], doc="union with one member")
    empty = m.union(ns, "Empty", [], doc="union[] (no members; always invalid at run time but must compile)")
    # what the spec parser produces for `record Holder { inline: union[int, string] }` and for an array of unions
    inline = m.union(ns, "Holder_Inline", [("int", INT32), ("string", STRING)])
    inline_arr = m.union(ns, "Holder_Items_Array", [("int", INT32), (ns + ".Point", rec)])

    m.record(ns, "Holder", [
        F("inline", inline),
        F("items", A(inline_arr)),
        F("plain", plain),
        F("aliased", aliased),
        F("nullable", nullable),
        F("nullableAliased", nullable_aliased),
        F("single", single),
    ], doc="required union fields")
    m.record(ns, "OptionalHolder", [
        F("plain", plain, opt=True), F("aliased", aliased, opt=True), F("nullable", nullable, opt=True),
        F("single", single, opt=True), F("empty", empty, opt=True),
    ], doc="optional union fields")
    m.record(ns, "DefaultHolder", [
        F("plainInt", plain, default={"int": 1}),
        F("plainString", plain, default={"string": "s"}),
        F("plainBytes", plain, default={"bytes": "\u0000ÿ"}),
        F("plainRecord", plain, default={ns + ".Point": {"x": 1}}),
        F("plainEnum", plain, default={ns + ".Kind": "B"}),
        F("plainArray", plain, default={"array": ["a", "b"]}),
        F("plainMap", plain, default={"map": {"k": {"x": 1, "y": 2}}}),
        F("aliasedCount", aliased, default={"count": 5}),
        F("aliasedNested", aliased, default={"nested": {"a": [{"b": {"x": 0}}]}}),
        F("nullableSet", nullable, default={"int": 0}),
        F("single", single, default={"string": ""}),
    ], doc="defaulted union fields")
    m.record(ns, "Containers", [
        F("array", A(plain)), F("map", M(aliased)), F("arrayOfNullable", A(nullable)),
        F("mapOfArray", M(A(plain)), opt=True),
        F("arrayDefault", A(aliased), default=[{"count": 1}, {"text": "t"}]),
        F("mapDefault", M(nullable), default={"k": {"int": 1}}),
    ], doc="unions inside arrays and maps")
    return m


# ---------------------------------------------------------------------------------------------------------- t-incl

@manifest
def t_incl():
    m = Manifest("t-incl")
    ns = "tincl"
    other = "tincl.base"
    c = m.record(other, "C", [
        F("cRequired", STRING, doc="required field declared only in C"),
        F("cDefault", INT64, default=-9223372036854775808, doc="default declared only in C"),
        F("cOptional", BYTES, opt=True),
    ], doc="root of the include chain, in another namespace")
    b = m.record(ns, "B", [
        F("bRequired", INT32, doc="required field declared only in B"),
        F("bDefault", STRING, default="from B", doc="default declared only in B"),
        F("bDefaultList", A(STRING), default=["b"]),
    ], includes=[c], doc="B includes C")
    a = m.record(ns, "A", [F("aOwn", BOOL, opt=True)], includes=[b], doc="A includes B includes C")
    m.record(ns, "AOnly", [], includes=[b], doc="no own fields at all, everything comes from B and C")
    empty = m.record(ns, "Empty", [], doc="a user-defined record without fields")
    m.record(ns, "IncludesEmpty", [F("own", INT32)], includes=[empty], doc="includes a user-defined empty record")
    m.record(ns, "IncludesRestliEmptyRecord", [F("own", INT32, default=3)], includes=[EMPTY_RECORD],
             doc="includes com.linkedin.restli.common.EmptyRecord (provided by go-restli itself)")
    m.record(ns, "OnlyIncludesEmpty", [], includes=[empty])
    d = m.record(ns, "D", [F("dField", F64, default=0.5)], doc="second, independent base")
    m.record(ns, "Multi", [F("own", STRING)], includes=[a, d], doc="includes two records (one of them a chain)")
    m.record(ns, "NoDefaultsOverDefaults", [F("plain", INT32)], includes=[d],
             doc="record without own defaults that includes a record with defaults")
    m.record(ns, "UsesChain", [
        F("a", a), F("optionalA", a, opt=True), F("defaultA", a, default={"bRequired": 1, "cRequired": "c"}),
        F("as", A(a)), F("byName", M(a)),
    ], doc="fields whose type is a record with includes")
    return m


# ---------------------------------------------------------------------------------------------------------- t-ckey

def all_methods(schema, params=(), return_entity=False):
    return [rest(n, schema, params, return_entity=return_entity and n in ("create", "batch_create", "partial_update"))
            for n in ALL_COLLECTION_METHODS]


@manifest
def t_ckey():
    m = Manifest("t-ckey")
    ns = "tckey"
    inner = m.record(ns, "Inner", [F("a", INT32), F("b", STRING, opt=True)])
    key = m.record(ns, "Key", [F("id", INT64), F("region", STRING)], doc="flat key record")
    nested_key = m.record(ns, "NestedKey", [
        F("inner", inner), F("tag", STRING, default="t"), F("tags", A(STRING), opt=True),
    ], doc="key record containing a nested record")
    params = m.record(ns, "KeyParams", [F("version", INT32, opt=True), F("inner", inner, opt=True)],
                      doc="complex key params record")
    value = m.record(ns, "Value", [F("message", STRING), F("count", INT32, opt=True)])

    # the spec parser names the type <ResourceName>_ComplexKey and puts it in the resource's namespace
    with_params = m.complex_key(ns + ".withParams", "WithParams_ComplexKey", key, params)
    nested = m.complex_key(ns + ".nested", "Nested_ComplexKey", nested_key, params)
    no_params = m.complex_key(ns + ".noParams", "NoParams_ComplexKey", key)
    empty_key = m.complex_key(ns + ".emptyKey", "EmptyKey_ComplexKey", R(*EMPTY_RECORD), params)

    m.record(ns + ".holder", "HoldsKeys", [
        F("k", with_params), F("optional", nested, opt=True), F("list", A(no_params)), F("byName", M(with_params)),
    ], doc="complex keys used as ordinary field types")

    m.resource(ns + ".withParams", [("withParams", ("key", with_params))], value, all_methods(value))
    m.resource(ns + ".nested", [("nested", ("nestedId", nested))], value, all_methods(value))
    m.resource(ns + ".noParams", [("noParams", ("key", no_params))], value, all_methods(value))
    m.resource(ns + ".emptyKey", [("emptyKey", ("key", empty_key))], value, [rest("get", value)])
    # a collection keyed directly by a record (what the spec parser emits when the identifier has no "params")
    m.resource(ns + ".recordKey", [("recordKey", ("key", key))], value, all_methods(value))
    return m


# ---------------------------------------------------------------------------------------------------------- t-cycle

@manifest
def t_cycle():
    m = Manifest("t-cycle")
    a, b, c = "tcycle.a", "tcycle.b", "tcycle.c"
    # --- a package cycle a -> b -> a (plus a self-recursive type), resolved by moving the types to conflictResolution
    m.record(a, "Node", [
        F("edges", A(R(b, "Edge"))), F("parent", R(a, "Node"), opt=True), F("kind", R(b, "Kind"), default="LEAF"),
        F("shared", R(a, "Shared"), opt=True),
    ], doc="a.Node -> b.Edge -> a.Node")
    m.record(b, "Edge", [
        F("from", R(a, "Node")), F("to", R(a, "Node"), opt=True), F("weight", R(b, "Weight"), default=1.5),
        F("shared", R(b, "Shared"), opt=True), F("label", R(b, "Label"), opt=True),
    ])
    m.enum(b, "Kind", ["LEAF", "BRANCH"])
    m.typeref(b, "Weight", F64)
    m.union(b, "Label", [("string", STRING), (a + ".Node", R(a, "Node"))])
    # --- two types with the same name in the two cyclic namespaces (get renamed when they land in the same package)
    m.record(a, "Shared", [F("inA", INT32), F("other", R(b, "Shared"), opt=True)])
    m.record(b, "Shared", [F("inB", STRING), F("back", A(R(a, "Shared")), opt=True)])
    # --- a three-package cycle through includes
    m.record(c, "Base", [F("next", R("tcycle.d", "Mid"), opt=True)])
    m.record("tcycle.d", "Mid", [F("leaf", R("tcycle.e", "Top"), opt=True)])
    m.record("tcycle.e", "Top", [F("x", INT32)], includes=[(c, "Base")])
    # --- same type name in two unrelated, acyclic namespaces, and two namespaces with the same last segment
    t1 = m.record("tcycle.x.common", "Thing", [F("x", INT32)])
    t2 = m.record("tcycle.y.common", "Thing", [F("y", STRING)])
    m.record("tcycle.user", "UsesBoth", [F("one", t1), F("two", t2), F("node", R(a, "Node"), opt=True)],
             doc="imports two packages both called common, and a type that was moved by cycle resolution")
    # --- namespace containing "internal" (escaped to _internal in the package path)
    hidden = m.record("tcycle.internal.deep", "Hidden", [F("v", INT32)])
    m.record("tcycle.user", "UsesInternal", [F("h", hidden)])
    # --- names that only differ by case: two TYPES in one namespace are a generator failure (failing/case-only-type-
    #     names.json); across namespaces and for enum symbols it works
    m.record("tcycle.caseonly.one", "Item", [F("a", INT32)])
    m.record("tcycle.caseonly.two", "ITEM", [F("b", INT32), F("item", R("tcycle.caseonly.one", "Item"), opt=True)])
    m.enum("tcycle.caseonly.one", "Mode", ["on", "ON", "On"], doc="symbols differing only by case")
    # --- identifiers with $, leading _ and leading digit where ExportedIdentifier is applied (fields, enum symbols,
    #     union aliases, finder and action names, parameters)
    m.enum("tcycle.idents", "Sym", ["$START", "MID$DLE", "END$", "_LEADING", "__DOUBLE"])
    m.union("tcycle.idents", "Aliases", [("$dollar", INT32), ("_under", STRING), ("in$ide", BOOL), ("1digit", INT64)])
    idents = m.record("tcycle.idents", "Fields", [
        F("$dollar", INT32), F("_under", STRING, opt=True), F("in$ide", BOOL, default=True), F("tail$", INT32),
        F("1digit", INT64, opt=True), F("__dunder", STRING, opt=True), F("ünïcode", STRING, opt=True),
        F("type", STRING), F("func", INT32, opt=True), F("snake_case", INT32, default=1),
        F("aliases", R("tcycle.idents", "Aliases"), opt=True), F("sym", R("tcycle.idents", "Sym"), default="$START"),
    ])
    m.resource("tcycle.idents.res", [("res", ("res_id", INT64))], idents, [
        rest("get", idents),
        finder("$find", idents, [F("$p", INT32), F("_q", STRING, opt=True)]),
        finder("_under", idents),
        # action NAMES with $ or a leading _ are generator failures (failing/action-name-*.json); parameters are fine
        action("act", params=[F("$a", INT32), F("1b", STRING, opt=True), F("_c", BOOL, opt=True)], ret=INT32),
    ])
    return m


# ---------------------------------------------------------------------------------------------------------- t-custom

@manifest
def t_custom():
    # needs overlays/t-custom: tcustom/Temperature.go, tcustom/Email.go, tcustom/ids/UUID.go
    m = Manifest("t-custom")
    ns = "tcustom"
    temp = m.typeref(ns, "Temperature", INT32, doc="custom typeref detected through tcustom/Temperature.go")
    email = m.typeref(ns, "Email", STRING, doc="custom typeref, also flagged in the manifest", custom=True)
    uuid = m.typeref(ns + ".ids", "UUID", BYTES, doc="custom bytes typeref in a sub-namespace")
    plain = m.typeref(ns, "Plain", INT32, doc="ordinary generated typeref next to the custom ones", custom=False)
    union = m.union(ns, "Reading", [(ns + ".Temperature", temp), ("string", STRING), ("id", uuid)])
    value = m.record(ns, "Measurement", [
        F("temp", temp), F("optionalTemp", temp, opt=True), F("defaultTemp", temp, default=273),
        F("email", email), F("optionalEmail", email, opt=True), F("defaultEmail", email, default="a@b.c"),
        F("id", uuid), F("optionalId", uuid, opt=True), F("defaultId", uuid, default="0123456789abcdef"),
        F("plain", plain), F("temps", A(temp)), F("emails", A(email), opt=True),
        F("idList", A(uuid), default=[]), F("tempByName", M(temp)), F("emailByName", M(email), opt=True),
        F("deep", M(A(temp)), opt=True), F("reading", union, opt=True), F("readings", A(union), opt=True),
    ], doc="custom typerefs as field, array element, map value and union member")
    qp = [F("unit", temp, opt=True), F("contacts", A(email), opt=True)]
    m.resource(ns + ".byTemp", [("byTemp", ("temp", temp))], value, all_methods(value))
    m.resource(ns + ".byEmail", [("byEmail", ("email", email))], value, all_methods(value, qp) + [
        finder("near", value, [F("t", temp), F("ids", A(uuid), opt=True)]),
        action("convert", params=[F("t", temp), F("all", A(temp), opt=True)], ret=temp),
        action("list", on_entity=True, ret=A(email)),
        action("index", ret=M(uuid)),
    ])
    m.resource(ns + ".byId", [("byId", ("id", uuid))], value, all_methods(value))
    m.resource(ns + ".byId.sub", [("byId", ("id", uuid)), ("sub", ("t", temp))], value, [rest("get", value)])
    return m


# ---------------------------------------------------------------------------------------------------------- r-coll

def coll_params(ns, enum, tref, rec):
    """query parameters of every shape (the spec parser never emits defaultValue for params, the generator honours
    it nonetheless)"""
    return [
        F("required", INT32, doc="a required int param"),
        F("optional", STRING, opt=True),
        F("withDefault", INT64, opt=True, default=10),
        F("flag", BOOL, opt=True),
        F("ratio", F64, opt=True),
        F("blob", BYTES, opt=True),
        F("mode", enum, opt=True),
        F("unit", tref, opt=True),
        F("filter", rec, opt=True),
        F("names", A(STRING), opt=True),
        F("filters", A(rec), opt=True),
        F("weights", M(F32), opt=True),
    ]


@manifest
def r_coll():
    m = Manifest("r-coll")
    ns = "rcoll"
    mode = m.enum(ns, "Mode", ["FAST", "SLOW"])
    long_ref = m.typeref(ns, "MemberId", INT64, doc="typeref used as key")
    string_ref = m.typeref(ns, "Urn", STRING)
    unit = m.typeref(ns, "Unit", INT32)
    fixed = m.fixed(ns, "Digest", 8)
    flt = m.record(ns, "Filter", [F("field", STRING), F("values", A(STRING), default=[])])
    value = m.record(ns, "Item", [
        F("name", STRING), F("size", INT64, opt=True), F("mode", mode, default="FAST"), F("filter", flt, opt=True),
    ], doc="collection value")
    key_rec = m.record(ns, "ItemKey", [F("major", INT32), F("minor", INT32)])
    key_params = m.record(ns, "ItemKeyParams", [F("hint", STRING, opt=True)])
    params = coll_params(ns, mode, unit, flt)

    keys = [
        ("byLong", "id", INT64), ("byString", "name", STRING), ("byInt", "id", INT32), ("byTyperef", "memberId", long_ref),
        ("byStringTyperef", "urn", string_ref), ("byEnum", "mode", mode), ("byFixed", "digest", fixed),
        ("byBool", "flag", BOOL), ("byDouble", "d", F64),
    ]
    for res, key_name, key_type in keys:
        # <res>: every method, no query params, no return entity
        m.resource(ns + "." + res, [(res, (key_name, key_type))], value, all_methods(value),
                   doc="collection keyed by " + key_name + " without query params")
        # <res>Params: every method with query params; create/batch_create/partial_update return the entity
        if res not in ("byLong", "byString", "byTyperef", "byEnum", "byFixed"):
            continue
        m.resource(ns + "." + res + "Params", [(res + "Params", (key_name, key_type))], value,
                   all_methods(value, params, return_entity=True),
                   doc="collection keyed by " + key_name + " with query params and return-entity")
    ck = m.complex_key(ns + ".byComplex", "ByComplex_ComplexKey", key_rec, key_params)
    m.resource(ns + ".byComplex", [("byComplex", ("key", ck))], value, all_methods(value))
    ckp = m.complex_key(ns + ".byComplexParams", "ByComplexParams_ComplexKey", key_rec, key_params)
    m.resource(ns + ".byComplexParams", [("byComplexParams", ("key", ckp))], value,
               all_methods(value, params, return_entity=True))
    # get_all with paging, with and without additional params; only some methods present
    m.resource(ns + ".paged", [("paged", ("id", INT64))], value, [
        rest("get_all", value, paging=True), rest("get", value),
    ])
    m.resource(ns + ".pagedParams", [("pagedParams", ("id", INT64))], value, [
        rest("get_all", value, [F("q", STRING, opt=True)], paging=True),
        rest("create", value, return_entity=True), rest("partial_update", value, return_entity=False),
        rest("batch_create", value, [F("dryRun", BOOL, default=False)]),
    ])
    # bytes (or bytes-typeref) keys never compile, not even with `get` alone: see failing/bytes-key.json
    # a collection that declares no methods at all (the generator emits nothing for it)
    m.resource(ns + ".noMethods", [("noMethods", ("id", INT64))], value, [])
    return m


# ---------------------------------------------------------------------------------------------------------- r-simple

SIMPLE_METHODS = ["get", "update", "partial_update", "delete"]


def simple_methods(schema, params=(), return_entity=False):
    return [rest(n, schema, params, collection=False, return_entity=return_entity and n == "partial_update")
            for n in SIMPLE_METHODS]


@manifest
def r_simple():
    m = Manifest("r-simple")
    ns = "rsimple"
    level = m.enum(ns, "Level", ["LOW", "HIGH"])
    nested = m.record(ns, "Owner", [F("name", STRING), F("email", STRING, opt=True)])
    value = m.record(ns, "Settings", [
        F("title", STRING), F("level", level, default="LOW"), F("owner", nested, opt=True),
        F("tags", A(STRING), default=[]), F("limits", M(INT64), opt=True),
    ])
    params = [F("verbose", BOOL, opt=True), F("level", level, opt=True), F("revision", INT64),
              F("owners", A(nested), opt=True)]
    m.resource(ns + ".plain", [("plain", None)], value, simple_methods(value) + [
        action("reset"),
        action("rename", params=[F("title", STRING)], ret=value),
        action("count", ret=INT64),
    ], doc="simple resource, no query params")
    m.resource(ns + ".withParams", [("withParams", None)], value, simple_methods(value, params, True) + [
        action("audit", params=[F("since", INT64, opt=True), F("owner", nested, opt=True)], ret=A(STRING)),
    ], doc="simple resource, query params everywhere, partial_update returns the entity")
    m.resource(ns + ".getOnly", [("getOnly", None)], value, [rest("get", value, collection=False)])
    m.resource(ns + ".actionsOnly", [("actionsOnly", None)], value, [action("ping", ret=STRING)],
               doc="simple resource that only has actions")
    return m


# ---------------------------------------------------------------------------------------------------------- r-sub

@manifest
def r_sub():
    m = Manifest("r-sub")
    ns = "rsub"
    kind = m.enum(ns, "Kind", ["X", "Y"])
    tref = m.typeref(ns, "ChildId", STRING)
    parent_v = m.record(ns, "Parent", [F("name", STRING)])
    child_v = m.record(ns, "Child", [F("age", INT32), F("nick", STRING, opt=True)])
    grand_v = m.record(ns, "Grandchild", [F("toy", STRING, default="ball")])
    key_rec = m.record(ns, "CKey", [F("a", INT64), F("b", STRING)])
    key_params = m.record(ns, "CKeyParams", [F("p", INT32, opt=True)])
    qp = [F("fields", A(STRING), opt=True)]

    # collection -> collection -> collection
    p = ns + ".parents"
    s0 = [("parents", ("parentId", INT64))]
    s1 = s0 + [("children", ("childId", tref))]
    s2 = s1 + [("grandchildren", ("grandchildId", kind))]
    m.resource(p, s0, parent_v, all_methods(parent_v))
    m.resource(p + ".children", s1, child_v, all_methods(child_v, qp, return_entity=True) + [
        finder("byAge", child_v, [F("age", INT32)]), action("promote", on_entity=True), action("purge"),
    ], doc="one path key inherited")
    m.resource(p + ".children.grandchildren", s2, grand_v, all_methods(grand_v) + [
        finder("all", grand_v, paging=True),
        action("play", on_entity=True, params=[F("minutes", INT32)], ret=BOOL),
        action("tidy", ret=A(grand_v)),
    ], doc="two path keys inherited")

    # collection (complex key) -> simple -> collection
    c = ns + ".complex"
    ck = m.complex_key(c, "Complex_ComplexKey", key_rec, key_params)
    c0 = [("complex", ("complexKey", ck))]
    c1 = c0 + [("profile", None)]
    c2 = c1 + [("entries", ("entryId", INT32))]
    m.resource(c, c0, parent_v, [rest("get", parent_v), rest("batch_get", parent_v)])
    m.resource(c + ".profile", c1, child_v, simple_methods(child_v) + [action("touch", ret=INT64)],
               doc="simple sub-resource of a complex-key collection")
    m.resource(c + ".profile.entries", c2, grand_v, all_methods(grand_v, qp) + [
        action("onEntry", on_entity=True, ret=grand_v),
    ], doc="collection below a simple below a collection")

    # simple -> collection -> simple, and simple -> simple
    r = ns + ".root"
    r0 = [("root", None)]
    r1 = r0 + [("items", ("itemId", STRING))]
    r2 = r1 + [("detail", None)]
    m.resource(r, r0, parent_v, simple_methods(parent_v))
    m.resource(r + ".items", r1, child_v, all_methods(child_v) + [finder("byNick", child_v, [F("nick", STRING)])])
    m.resource(r + ".items.detail", r2, grand_v, simple_methods(grand_v, qp, True) + [action("explain", ret=STRING)])
    m.resource(r + ".status", r0 + [("status", None)], child_v, [rest("get", child_v, collection=False)])
    # actionSet below nothing but with a parent that has no methods (parents need not be generated)
    m.resource(ns + ".ghost.leaf", [("ghost", ("ghostId", INT64)), ("leaf", ("leafId", INT64))], grand_v,
               [rest("get", grand_v), rest("get_all", grand_v)], doc="sub-resource whose parent is not in the manifest")
    return m


# ---------------------------------------------------------------------------------------------------------- r-find-act

@manifest
def r_find_act():
    m = Manifest("r-find-act")
    ns = "rfindact"
    color = m.enum(ns, "Color", ["RED", "BLUE"])
    score = m.typeref(ns, "Score", F64)
    digest = m.fixed(ns, "Digest", 4)
    crit = m.record(ns, "Criteria", [F("field", STRING), F("min", INT32, opt=True), F("max", INT32, default=100)])
    value = m.record(ns, "Doc", [F("title", STRING), F("body", STRING, opt=True), F("score", score, opt=True)])
    meta = m.record(ns, "SearchMetadata", [F("took", INT64), F("facets", M(INT32), default={})])
    meta2 = m.record(ns + ".meta", "OtherMetadata", [F("note", STRING, opt=True)], doc="metadata in another namespace")
    choice = m.union(ns, "Outcome", [("ok", BOOL), ("error", STRING), ("doc", value)])

    finder_params = [
        F("text", STRING), F("limit", INT32, opt=True), F("color", color, opt=True), F("minScore", score, opt=True),
        F("criteria", crit, opt=True), F("criteriaList", A(crit), opt=True), F("ids", A(INT64), opt=True),
        F("boost", M(F64), opt=True), F("digest", digest, opt=True), F("raw", BYTES, opt=True),
        F("withDefault", INT32, opt=True, default=7),
    ]
    finders = [
        finder("noParams", value, doc="finder without params"),
        finder("search", value, finder_params, doc="finder with params"),
        finder("oneParam", value, [F("title", STRING)]),
        finder("noParamsPaged", value, paging=True, doc="finder with only the paging context"),
        finder("searchPaged", value, finder_params, paging=True, doc="finder with params and paging context"),
        finder("noParamsMeta", value, metadata=meta),
        finder("searchMeta", value, finder_params, metadata=meta),
        finder("searchPagedMeta", value, [F("text", STRING, opt=True)], paging=True, metadata=meta2),
        finder("unionMeta", value, metadata=choice, doc="metadata typed as a union"),
        finder("snake_case", value, [F("snake_param", STRING, opt=True)]),
    ]
    action_params = [
        F("text", STRING), F("count", INT32, opt=True), F("color", color, opt=True), F("score", score, opt=True),
        F("criteria", crit), F("criteriaList", A(crit), opt=True), F("byName", M(crit), opt=True),
        F("digest", digest, opt=True), F("raw", BYTES, opt=True), F("doc", value, opt=True),
        F("outcome", choice, opt=True), F("nested", A(M(A(INT32))), opt=True),
    ]
    returns = [
        ("Nothing", None), ("Int", INT32), ("Long", INT64), ("Float", F32), ("Double", F64), ("Bool", BOOL),
        ("String", STRING), ("Bytes", BYTES), ("Enum", color), ("Typeref", score), ("Fixed", digest),
        ("Record", value), ("Union", choice), ("IntArray", A(INT32)), ("BytesArray", A(BYTES)),
        ("RecordArray", A(value)), ("EnumArray", A(color)), ("UnionArray", A(choice)), ("StringMap", M(STRING)),
        ("RecordMap", M(value)), ("FixedMap", M(digest)), ("Nested", M(A(M(value)))),
    ]

    def actions(on_entity, prefix):
        out = []
        for name, ret in returns:
            out.append(action(prefix + name, on_entity=on_entity, ret=ret, doc="no params, returns " + name))
            # the full parameter list only on a few actions, two parameters on the others
            ps = action_params if name in ("Nothing", "Record", "Nested") else action_params[:2]
            out.append(action(prefix + name + "WithParams", on_entity=on_entity, params=ps, ret=ret))
        return out

    m.resource(ns + ".docs", [("docs", ("docId", INT64))], value,
               [rest("get", value)] + finders + actions(False, "coll") + actions(True, "entity"),
               doc="collection with every finder and action shape")
    m.resource(ns + ".findersOnly", [("findersOnly", ("id", STRING))], value, finders[:2])
    m.resource(ns + ".single", [("single", None)], value,
               [rest("get", value, collection=False)] + actions(False, "do"),
               doc="simple resource with actions")
    # actionsSet: no schema, no key
    m.resource(ns + ".tools", [("tools", None)], None, actions(False, "tool"), doc="actionsSet resource")
    m.resource(ns + ".docs.subTools", [("docs", ("docId", INT64)), ("subTools", None)], None,
               [action("reindex", params=[F("force", BOOL, opt=True)], ret=INT32), action("noop")],
               doc="actionsSet as a sub-resource: path key of the parent is inherited")
    return m


# ---------------------------------------------------------------------------------------------------------- r-annot

WRITING_COLLECTION_METHODS = ["create", "update", "partial_update", "batch_create", "batch_update",
                              "batch_partial_update"]


@manifest
def r_annot():
    m = Manifest("r-annot")
    ns = "rannot"
    audit = m.record(ns, "AuditStamp", [F("time", INT64), F("actor", STRING, opt=True)])
    part = m.record(ns, "Part", [F("sku", STRING), F("serial", STRING, opt=True), F("stamp", audit, opt=True)])
    choice = m.union(ns, "Payload", [("text", STRING), (ns + ".Part", part)])
    value = m.record(ns, "Widget", [
        F("id", INT64, opt=True, doc="read-only: assigned by the server"),
        F("name", STRING),
        F("owner", STRING, doc="create-only"),
        F("created", audit, opt=True, doc="read-only nested record"),
        F("modified", audit, opt=True, doc="modified/time is read-only, /modified/actor create-only (leading slash)"),
        F("parts", A(part), default=[], doc="parts/*/serial is read-only, parts/*/sku create-only"),
        F("partsByName", M(part), opt=True, doc="partsByName/*/stamp read-only"),
        F("labels", M(STRING), opt=True, doc="labels/system read-only (one map key)"),
        F("payload", choice, opt=True, doc="payload/rannot.Part/serial read-only (through a union member)"),
        F("revision", INT32, default=0, doc="read-only field that has a default"),
        F("free", STRING, opt=True, doc="not annotated"),
    ])
    read_only = ["id", "created", "modified/time", "parts/*/serial", "partsByName/*/stamp", "labels/system",
                 "payload/" + ns + ".Part/serial", "revision"]
    create_only = ["owner", "parts/*/sku", "partsByName/*/sku", "/modified/actor"]
    qp = [F("reason", STRING, opt=True)]

    def writers(collection, params=(), return_entity=False):
        if collection:
            names = ALL_COLLECTION_METHODS
        else:
            names = SIMPLE_METHODS
        return [rest(n, value, params, collection=collection,
                     return_entity=return_entity and n in ("create", "batch_create", "partial_update"))
                for n in names]

    m.resource(ns + ".widgets", [("widgets", ("widgetId", INT64))], value, writers(True),
               read_only=read_only, create_only=create_only, doc="read-only and create-only fields")
    m.resource(ns + ".widgetsReturning", [("widgetsReturning", ("widgetId", STRING))], value,
               writers(True, qp, True), read_only=read_only, create_only=create_only,
               doc="same with query params and return-entity")
    m.resource(ns + ".readOnlyOnly", [("readOnlyOnly", ("widgetId", INT64))], value, writers(True),
               read_only=["id"], doc="only read-only fields")
    m.resource(ns + ".createOnlyOnly", [("createOnlyOnly", ("widgetId", INT64))], value, writers(True),
               create_only=["owner", "parts/*/sku"], doc="only create-only fields")
    m.resource(ns + ".widget", [("widget", None)], value, writers(False), read_only=read_only,
               create_only=create_only, doc="simple resource with annotations")
    m.resource(ns + ".widgetReturning", [("widgetReturning", None)], value, writers(False, qp, True),
               read_only=["id"], create_only=["owner"])
    m.resource(ns + ".widgets.parts", [("widgets", ("widgetId", INT64)), ("parts", ("partId", STRING))], part,
               [rest(n, part) for n in WRITING_COLLECTION_METHODS] + [rest("get", part)],
               read_only=["serial", "stamp/time"], create_only=["sku"], doc="annotated sub-resource")
    m.resource(ns + ".unannotated", [("unannotated", ("widgetId", INT64))], value, writers(True),
               doc="control: same value type without annotations")
    return m


# ---------------------------------------------------------------------------------------------------------- failing
# Well-formed inputs on which the generator misbehaves; written to v2/failing/. See FORMAT.md.

def failing(fn):
    def wrapped():
        return (fn(), "failing")
    MANIFESTS.append(wrapped)
    return fn


@failing
def f_union_only_null():
    m = Manifest("union-only-null", "verifcorpus/failing/uniononlynull")
    ns = "f"
    u = m.union(ns, "OnlyNull", [], has_null=True, doc="union[null]")
    m.record(ns, "Holder", [F("u", u, opt=True)])
    return m


@failing
def f_union_nullable_single_member():
    # union[null, int]: the common "nullable value" idiom. isSet is assigned but never read when hasNull is true and
    # there are fewer than two members.
    m = Manifest("union-nullable-single-member", "verifcorpus/failing/unionnullablesingle")
    u = m.union("f", "MaybeInt", [("int", INT32)], has_null=True, doc="union[null, int]")
    m.record("f", "Holder", [F("u", u, opt=True)])
    return m


@failing
def f_case_only_type_names():
    m = Manifest("case-only-type-names", "verifcorpus/failing/caseonly")
    m.record("f", "Item", [F("a", INT32)])
    m.record("f", "ITEM", [F("b", INT32)])
    return m


@failing
def f_action_name_dollar():
    m = Manifest("action-name-dollar", "verifcorpus/failing/actiondollar")
    v = m.record("f", "V", [F("a", INT32)])
    m.resource("f.res", [("res", ("id", INT64))], v, [action("$act", ret=INT32)])
    return m


@failing
def f_action_name_underscore():
    m = Manifest("action-name-underscore", "verifcorpus/failing/actionunderscore")
    v = m.record("f", "V", [F("a", INT32)])
    m.resource("f.res", [("res", ("id", INT64))], v, [action("_act", ret=INT32)])
    return m


@failing
def f_nondeterministic_cycle():
    # a.X -> b.Y -> a.Z is a package cycle a -> b -> a; b.W -> a.X only points INTO it. Whether W is also moved to
    # the conflictResolution package depends on the (random) map iteration order in flagCyclicDependencies: starting
    # from W the reported cycle is W -> X -> Y, starting from X it is X -> Y -> Z and W stays in package b.
    m = Manifest("nondeterministic-cycle", "verifcorpus/failing/ndcycle")
    m.record("nd.a", "X", [F("y", R("nd.b", "Y"), opt=True)])
    m.record("nd.b", "Y", [F("z", R("nd.a", "Z"), opt=True)])
    m.record("nd.a", "Z", [F("v", INT32)])
    m.record("nd.b", "W", [F("x", R("nd.a", "X"), opt=True)])
    return m


@failing
def f_bytes_key():
    m = Manifest("bytes-key", "verifcorpus/failing/byteskey")
    v = m.record("f", "V", [F("a", INT32)])
    token = m.typeref("f", "Token", BYTES)
    m.resource("f.raw", [("raw", ("key", BYTES))], v, [rest("get", v)])
    m.resource("f.token", [("token", ("key", token))], v, [rest("get", v)])
    return m


@failing
def f_union_members_same_simple_name():
    # union[a.Rec, b.Rec] without aliases: both members become the Go field `Rec`
    m = Manifest("union-members-same-simple-name", "verifcorpus/failing/unionsamename")
    ra = m.record("f.a", "Rec", [F("x", INT32)])
    rb = m.record("f.b", "Rec", [F("y", INT32)])
    m.union("f", "U", [("f.a.Rec", ra), ("f.b.Rec", rb)])
    return m


@failing
def f_field_named_like_method():
    # record fields whose exported name equals a generated method of the struct
    m = Manifest("field-named-like-method", "verifcorpus/failing/fieldmethod")
    m.record("f", "Eq", [F("equals", BOOL)])
    m.record("f", "Hash", [F("computeHash", INT64, opt=True)])
    m.record("f", "Inst", [F("newInstance", STRING, opt=True)])
    m.record("f", "Marsh", [F("marshalFields", STRING, opt=True)])
    return m


@failing
def f_field_named_like_include():
    # record A includes B and has a field "b": embedded struct B and field B collide
    m = Manifest("field-named-like-include", "verifcorpus/failing/fieldinclude")
    b = m.record("f", "B", [F("x", INT32)])
    m.record("f", "A", [F("b", STRING)], includes=[b])
    return m


@failing
def f_includes_same_simple_name():
    # record C includes a.Base and b.Base: two embedded fields called Base
    m = Manifest("includes-same-simple-name", "verifcorpus/failing/includesamename")
    ba = m.record("f.a", "Base", [F("x", INT32)])
    bb = m.record("f.b", "Base", [F("y", INT32)])
    m.record("f", "C", [F("z", INT32)], includes=[ba, bb])
    return m


@failing
def f_fields_differ_by_case():
    m = Manifest("fields-differ-by-case", "verifcorpus/failing/fieldcase")
    m.record("f", "R", [F("value", INT32), F("Value", STRING)])
    return m


@failing
def f_lowercase_type_name():
    # pegasus allows type names that start with a lower case letter or _; they become unexported Go types
    m = Manifest("lowercase-type-name", "verifcorpus/failing/lowercasetype")
    lower = m.record("f.a", "lower", [F("x", INT32)])
    m.record("f.b", "User", [F("l", lower)])
    return m


@failing
def f_action_param_default():
    # NOT producible by the spec parser (it turns parameter defaults into isOptional), but accepted by the manifest
    # grammar: an action parameter carrying defaultValue
    m = Manifest("action-param-default", "verifcorpus/failing/actionparamdefault")
    v = m.record("f", "V", [F("a", INT32)])
    m.resource("f.res", [("res", ("id", INT64))], v, [action("act", params=[F("n", INT32, default=1)])])
    return m


@failing
def f_namespace_go_keyword():
    m = Manifest("namespace-go-keyword", "verifcorpus/failing/nskeyword")
    m.record("f.common.type", "R", [F("x", INT32)])
    return m


@failing
def f_namespace_main():
    m = Manifest("namespace-main", "verifcorpus/failing/nsmain")
    r = m.record("f.main", "R", [F("x", INT32)])
    m.record("f.user", "U", [F("r", r)])
    return m


@failing
def f_type_named_like_resource_type():
    # a data type living in a resource's namespace and named like one of the fixed resource-level types
    m = Manifest("type-named-like-resource-type", "verifcorpus/failing/typeresource")
    v = m.record("f", "V", [F("a", INT32)])
    m.record("f.res", "Client", [F("a", INT32)])
    m.resource("f.res", [("res", ("id", INT64))], v, [rest("get", v)])
    return m


def main():
    for fn in MANIFESTS:
        res = fn()
        if isinstance(res, tuple):
            res[0].write(res[1])
        else:
            res.write()


if __name__ == "__main__":
    main()
