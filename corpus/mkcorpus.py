#!/usr/bin/env python3
"""Source of the hand-written go-restli v2 manifest corpus.

The JSON files under /verif/corpus/v2 are the deliverable and are checked in; this script only exists so that the
manifests can be written in a compact notation and regenerated consistently (`python3 mkcorpus.py` rewrites every
/verif/corpus/v2/*.json and v2/failing/*.json). The field spelling follows what the Java spec parser emits (lowerCamel
names, see FORMAT.md).
"""
import json
import os
import sys

HERE = os.path.dirname(os.path.abspath(__file__))
OUT = os.path.join(HERE, "v2")

EMPTY_RECORD = ("com.linkedin.restli.common", "EmptyRecord")

# ---------------------------------------------------------------------------------------------------------- notation

INT32, INT64, F32, F64, BOOL, STRING, BYTES = (
    {"primitive": p} for p in ("int32", "int64", "float32", "float64", "bool", "string", "bytes"))
PRIMS = [("int32", INT32), ("int64", INT64), ("float32", F32), ("float64", F64), ("bool", BOOL), ("string", STRING),
         ("bytes", BYTES)]


def ident(ns, name):
    return {"name": name, "namespace": ns}


def R(ns, name):
    return {"reference": ident(ns, name)}


def A(t):
    return {"array": t}


def M(t):
    return {"map": t}


RAW = {"rawRecord": True}

_NODEFAULT = object()


def F(name, t, opt=False, default=_NODEFAULT, raw_default=None, doc=""):
    """A record field / method parameter. `default` is a python value that is JSON encoded into the defaultValue
    string; `raw_default` is the literal defaultValue string."""
    f = {"name": name, "doc": doc, "type": t, "isOptional": bool(opt)}
    if raw_default is not None:
        f["defaultValue"] = raw_default
    elif default is not _NODEFAULT:
        f["defaultValue"] = json.dumps(default, ensure_ascii=False, separators=(",", ":"))
    return f


class Manifest:
    def __init__(self, name, package_root=None):
        self.name = name
        self.src = name + ".json"
        self.m = {
            "packageRoot": package_root or "verifcorpus/" + name.replace("-", ""),
            "inputDataTypes": [],
            "dependencyDataTypes": [],
            "resources": [],
        }

    def _named(self, ns, name, doc):
        return {"name": name, "namespace": ns, "sourceFile": self.src, "doc": doc}

    def _add(self, kind, body):
        self.m["inputDataTypes"].append({kind: body})
        return R(body["namespace"], body["name"])

    def record(self, ns, name, fields, includes=(), doc=""):
        b = self._named(ns, name, doc)
        b["includes"] = [ident(*i) if isinstance(i, tuple) else i["reference"] for i in includes]
        b["fields"] = list(fields)
        return self._add("record", b)

    def enum(self, ns, name, symbols, docs=None, doc=""):
        b = self._named(ns, name, doc)
        b["symbols"] = list(symbols)
        b["symbolToDoc"] = dict(docs or {})
        return self._add("enum", b)

    def fixed(self, ns, name, size, doc=""):
        b = self._named(ns, name, doc)
        b["size"] = size
        return self._add("fixed", b)

    def typeref(self, ns, name, prim, doc="", custom=None):
        b = self._named(ns, name, doc)
        b["type"] = prim["primitive"] if isinstance(prim, dict) else prim
        if custom is not None:
            b["isCustom"] = custom
        return self._add("typeref", b)

    def union(self, ns, name, members, has_null=False, doc=""):
        """members: list of (alias, type)"""
        b = self._named(ns, name, doc)
        b["union"] = {"hasNull": bool(has_null), "members": [{"type": t, "alias": a} for a, t in members]}
        return self._add("standaloneUnion", b)

    def complex_key(self, ns, name, key, params=None, doc=""):
        b = self._named(ns, name, doc or "Complex Key for " + name)
        b["key"] = key["reference"]
        b["params"] = params["reference"] if params else ident(*EMPTY_RECORD)
        return self._add("complexKey", b)

    def resource(self, ns, segments, schema, methods, read_only=(), create_only=(), doc=""):
        """segments: list of (resourceName, None | (keyName, keyType))"""
        r = {
            "namespace": ns,
            "doc": doc,
            "sourceFile": self.src,
            "resourcePathSegments": [
                {"resourceName": n, "pathKey": None if k is None else {"name": k[0], "type": k[1]}}
                for n, k in segments],
            "resourceSchema": schema,
            "methods": list(methods),
            "readOnlyFields": list(read_only),
            "createOnlyFields": list(create_only),
        }
        self.m["resources"].append(r)
        return r

    def write(self, subdir=""):
        d = os.path.join(OUT, subdir)
        os.makedirs(d, exist_ok=True)
        with open(os.path.join(d, self.name + ".json"), "w") as f:
            json.dump(self.m, f, indent=2, ensure_ascii=True)
            f.write("\n")


def method(mtype, name, on_entity, params=(), paging=False, ret=None, metadata=None, return_entity=False, doc=""):
    return {
        "methodType": mtype,
        "name": name,
        "doc": doc,
        "onEntity": bool(on_entity),
        "params": list(params),
        "isPagingSupported": bool(paging),
        "return": ret,
        "metadata": metadata,
        "returnEntity": bool(return_entity),
    }


# rest methods that address one entity of a collection (path key of the last segment is part of the URL)
ENTITY_REST_METHODS = {"get", "update", "partial_update", "delete"}


def rest(name, schema, params=(), collection=True, return_entity=False, paging=False):
    return method("REST_METHOD", name, collection and name in ENTITY_REST_METHODS, params, paging, schema, None,
                  return_entity)


def finder(name, schema, params=(), paging=False, metadata=None, doc=""):
    return method("FINDER", name, False, params, paging, schema, metadata, False, doc)


def action(name, on_entity=False, params=(), ret=None, doc=""):
    return method("ACTION", name, on_entity, params, False, ret, None, False, doc)


ALL_COLLECTION_METHODS = ["get", "create", "update", "partial_update", "delete", "get_all", "batch_get",
                          "batch_create", "batch_update", "batch_partial_update", "batch_delete"]

MANIFESTS = []


def manifest(fn):
    MANIFESTS.append(fn)
    return fn


# ---------------------------------------------------------------------------------------------------------- t-prims

@manifest
def t_prims():
    m = Manifest("t-prims")
    ns = "tprims"
    m.record(ns, "AllRequired", [F("f" + n.capitalize(), t, doc="required " + n) for n, t in PRIMS],
             doc="Every primitive as a required field")
    m.record(ns, "AllOptional", [F("f" + n.capitalize(), t, opt=True) for n, t in PRIMS],
             doc="Every primitive as an optional field")
    m.record(ns, "AllDefault", [
        F("fInt32", INT32, default=42),
        F("fInt64", INT64, default=-42),
        F("fFloat32", F32, default=1.5),
        F("fFloat64", F64, default=-2.25),
        F("fBool", BOOL, default=True),
        F("fString", STRING, default="hello"),
        F("fBytes", BYTES, default="abc"),
    ], doc="Every primitive with a plain default value")
    m.record(ns, "NumericExtremes", [
        F("int32Max", INT32, default=2147483647),
        F("int32Min", INT32, default=-2147483648),
        F("int32Zero", INT32, default=0),
        F("int64Max", INT64, default=9223372036854775807),
        F("int64Min", INT64, default=-9223372036854775808),
        F("int64Zero", INT64, default=0),
        F("float32Max", F32, raw_default="3.4028235e38"),
        F("float32Neg", F32, default=-0.5),
        F("float32Zero", F32, default=0),
        F("float32Int", F32, default=7),
        F("float64Huge", F64, raw_default="1e300"),
        F("float64NegHuge", F64, raw_default="-1E+300"),
        F("float64Tiny", F64, raw_default="5e-324"),
        F("float64Zero", F64, raw_default="0.0"),
        F("float64Int", F64, default=3),
        F("boolFalse", BOOL, default=False),
    ], doc="Defaults at the extremes of every numeric type")
    m.record(ns, "StringDefaults", [
        F("empty", STRING, default=""),
        F("quotes", STRING, default="she said \"hi\" and 'bye' `tick`"),
        F("escapes", STRING, default="tab\there\nnewline\\backslash\r\u0000nul/slash"),
        F("unicode", STRING, default="héllo wörld ☃ \U0001F600 世界"),
        F("asciiEscaped", STRING, raw_default="\"\\u0041\\u00e9\\ud83d\\ude00\""),
        F("percent", STRING, default="100% %d %s {}[],:"),
    ], doc="String defaults with escapes, quotes and unicode")
    m.record(ns, "BytesDefaults", [
        F("empty", BYTES, default=""),
        F("ascii", BYTES, default="some bytes"),
        F("lowHigh", BYTES, default="\u0000\u0001\u007f\u0080ÿ"),
        F("quotes", BYTES, default="\"'\\"),
    ], doc="Bytes defaults (pegasus encodes each byte as one char <= U+00FF)")
    m.record(ns, "OptionalWithDefault", [
        F("fInt32", INT32, opt=True, default=1),
        F("fString", STRING, opt=True, default="x"),
        F("fBytes", BYTES, opt=True, default="y"),
        F("required", STRING),
    ], doc="Fields that are both optional and defaulted, next to a required one")
    m.record(ns, "Mixed", [
        F("a", INT32), F("b", INT64, opt=True), F("c", F64, default=0.25), F("d", BOOL), F("e", STRING, opt=True),
        F("f", BYTES, default="\u0001"), F("g", F32),
    ])
    return m


# ---------------------------------------------------------------------------------------------------------- t-named

@manifest
def t_named():
    m = Manifest("t-named")
    ns = "tnamed"
    color = m.enum(ns, "Color", ["RED", "GREEN", "BLUE"], {"RED": "The colour red", "BLUE": "multi\nline doc"},
                   doc="A plain enum")
    # symbols that need ExportedIdentifier escaping / are Go keywords / lower case
    odd = m.enum(ns, "Odd", ["lower", "_under", "With$Dollar", "type", "unknown", "A1"],
                 doc="Enum whose symbols exercise identifier escaping")
    single = m.enum(ns, "Single", ["ONLY"])
    f1 = m.fixed(ns, "Fixed1", 1, doc="one byte")
    f16 = m.fixed(ns, "Fixed16", 16, doc="sixteen bytes")
    refs = []
    for n, t in PRIMS:
        refs.append((n, m.typeref(ns, n.capitalize() + "Ref", t, doc="typeref of " + n)))

    m.record(ns, "NamedRequired",
             [F("color", color), F("odd", odd), F("single", single), F("fixed1", f1), F("fixed16", f16)]
             + [F(n + "Ref", r) for n, r in refs])
    m.record(ns, "NamedOptional",
             [F("color", color, opt=True), F("odd", odd, opt=True), F("single", single, opt=True),
              F("fixed1", f1, opt=True), F("fixed16", f16, opt=True)]
             + [F(n + "Ref", r, opt=True) for n, r in refs])
    defaults = {"int32": -7, "int64": 9223372036854775807, "float32": 0.125, "float64": 1e300, "bool": True,
                "string": "a \"quoted\" ☃", "bytes": "\u0000ÿz"}
    m.record(ns, "NamedDefault",
             [F("color", color, default="GREEN"), F("oddLower", odd, default="lower"),
              F("oddDollar", odd, default="With$Dollar"), F("oddUnder", odd, default="_under"),
              F("oddKeyword", odd, default="type"), F("oddUnknown", odd, default="unknown"),
              F("single", single, default="ONLY"),
              F("fixed1", f1, default="\u0000"), F("fixed1High", f1, default="ÿ"),
              F("fixed16", f16, default="0123456789abcdef")]
             + [F(n + "Ref", r, default=defaults[n]) for n, r in refs])
    return m


# ---------------------------------------------------------------------------------------------------------- t-nest

@manifest
def t_nest():
    m = Manifest("t-nest")
    ns = "tnest"
    enum = m.enum(ns, "Suit", ["HEARTS", "SPADES"])
    fixed = m.fixed(ns, "Fixed4", 4)
    tref = m.typeref(ns, "Celsius", F64)
    bref = m.typeref(ns, "Blob", BYTES)
    leaf = m.record(ns, "Leaf", [F("id", INT64), F("label", STRING, opt=True), F("weight", F64, default=1.0)])
    union = m.union(ns, "Choice", [("int", INT32), ("string", STRING), (ns + ".Leaf", leaf)])
    kinds = [(n, t) for n, t in PRIMS] + [("enum", enum), ("fixed", fixed), ("typeref", tref),
                                          ("bytesTyperef", bref), ("record", leaf), ("union", union)]

    m.record(ns, "Arrays", [F(n + "s", A(t)) for n, t in kinds], doc="array of every element kind (required)")
    m.record(ns, "Maps", [F(n + "s", M(t)) for n, t in kinds], doc="map of every element kind (required)")
    m.record(ns, "OptionalContainers",
             [F(n + "Array", A(t), opt=True) for n, t in kinds] + [F(n + "Map", M(t), opt=True) for n, t in kinds])
    m.record(ns, "Deep", [
        F("mapArrayMapInt", M(A(M(INT32)))),
        F("arrayMapArrayRecord", A(M(A(leaf)))),
        F("arrayArrayArrayBytes", A(A(A(BYTES)))),
        F("mapMapMapUnion", M(M(M(union)))),
        F("arrayMapFixed", A(M(fixed)), opt=True),
        F("mapArrayEnum", M(A(enum)), opt=True),
        F("mapArrayTyperef", M(A(tref)), default={"k": [1.5, -2]}),
        F("arrayArrayString", A(A(STRING)), default=[["a", "b"], ["c"]]),
    ], doc="containers nested three deep")
    m.record(ns, "EmptyDefaults", [
        F("ints", A(INT32), default=[]),
        F("intsSpaced", A(INT32), raw_default="[  ]"),
        F("strings", M(STRING), default={}),
        F("stringsSpaced", M(STRING), raw_default="{ }"),
        F("records", A(leaf), default=[]),
        F("recordMap", M(leaf), default={}),
        F("unions", A(union), default=[]),
        F("deep", M(A(M(INT32))), default={}),
    ], doc="containers defaulted to [] and {}")
    m.record(ns, "NonEmptyDefaults", [
        F("ints", A(INT32), default=[1, 2, 3]),
        F("longs", A(INT64), default=[-9223372036854775808, 9223372036854775807]),
        F("doubles", A(F64), default=[0.5, 1e300]),
        F("bools", A(BOOL), default=[True, False]),
        F("strings", A(STRING), default=["", "a\"b", "☃"]),
        F("bytes", A(BYTES), default=["", "\u0000ÿ"]),
        F("enums", A(enum), default=["HEARTS", "SPADES"]),
        F("fixeds", A(fixed), default=["abcd"]),
        F("typerefs", A(tref), default=[36.6]),
        F("records", A(leaf), default=[{"id": 1}, {"id": 2, "label": "two", "weight": 2.5}]),
        F("unions", A(union), default=[{"int": 1}, {"string": "s"}, {ns + ".Leaf": {"id": 3}}]),
        F("intMap", M(INT32), default={"one": 1, "two": 2}),
        F("stringMap", M(STRING), default={"k": "v", "": ""}),
        F("bytesMap", M(BYTES), default={"k": "bytes"}),
        F("enumMap", M(enum), default={"h": "HEARTS"}),
        F("fixedMap", M(fixed), default={"f": "wxyz"}),
        F("typerefMap", M(bref), default={"b": "blob"}),
        F("recordMap", M(leaf), default={"a": {"id": 1}}),
        F("unionMap", M(union), default={"u": {"int": 5}}),
        F("deep", M(A(M(INT32))), default={"a": [{"b": 1}, {"c": 2, "d": 3}]}),
    ], doc="containers with non-empty defaults")
    # NOTE: the generator decides "default is empty" with an UNANCHORED regexp (`\\[ *]` / `{ *}`), so all of the
    # defaults below are silently replaced by the empty container in the generated code. They still compile.
    m.record(ns, "NestedEmptyDefaults", [
        F("arrayOfEmptyArray", A(A(INT32)), default=[[]]),
        F("arrayWithEmptyTail", A(A(INT32)), default=[[1, 2], []]),
        F("mapOfEmptyMap", M(M(STRING)), default={"k": {}}),
        F("stringLooksEmpty", A(STRING), default=["[]"]),
        F("mapStringLooksEmpty", M(STRING), default={"k": "{}"}),
        F("arrayOfEmptyMap", A(M(INT32)), default=[{}]),
    ], doc="non-empty defaults that contain an empty container")
    return m


# ---------------------------------------------------------------------------------------------------------- t-union

@manifest
def t_union():
    m = Manifest("t-union")
    ns = "tunion"
    other = "tunion.other"
    enum = m.enum(ns, "Kind", ["A", "B"])
    fixed = m.fixed(ns, "Fixed2", 2)
    tref = m.typeref(ns, "Meters", F32)
    rec = m.record(ns, "Point", [F("x", INT32), F("y", INT32, default=0)])
    far = m.record(other, "Remote", [F("name", STRING)], doc="record in another namespace")

    # no aliases: the alias is the pegasus member key (primitive name, "array", "map" or the full type name)
    plain = m.union(ns, "Plain", [
        ("int", INT32), ("long", INT64), ("float", F32), ("double", F64), ("boolean", BOOL), ("string", STRING),
        ("bytes", BYTES), (ns + ".Point", rec), (other + ".Remote", far), (ns + ".Kind", enum),
        (ns + ".Fixed2", fixed), (ns + ".Meters", tref), ("array", A(STRING)), ("map", M(rec)),
    ], doc="union without aliases over every member kind")
    aliased = m.union(ns, "Aliased", [
        ("count", INT32), ("otherCount", INT32), ("text", STRING), ("raw", BYTES), ("point", rec),
        ("otherPoint", rec), ("kind", enum), ("hash", fixed), ("distance", tref), ("ints", A(INT32)),
        ("points", A(rec)), ("byName", M(INT64)), ("nested", M(A(M(rec)))), ("type", BOOL),
    ], doc="union with aliases; several members share a type")
    nullable = m.union(ns, "Nullable", [("int", INT32), (ns + ".Point", rec)], has_null=True,
                       doc="union[null, int, Point]")
    nullable_aliased = m.union(ns, "NullableAliased", [("a", STRING), ("b", A(BYTES))], has_null=True)
    single = m.union(ns, "Single", [("string", STRING)], doc="union with one member")
    empty = m.union(ns, "Empty", [], doc="union[] (no members; always invalid at run time but must compile)")
    # what the spec parser produces for `record Holder { inline: union[int, string] }` and for an array of unions
    inline = m.union(ns, "Holder_Inline", [("int", INT32), ("string", STRING)])
    inline_arr = m.union(ns, "Holder_Items_Array", [("int", INT32), (ns + ".Point", rec)])

    m.record(ns, "Holder", [
        F("inline", inline),
        F("items", A(inline_arr)),
        F("plain", plain),
        F("aliased", aliased),
        F("nullable", nullable),
        F("nullableAliased", nullable_aliased),
        F("single", single),
    ], doc="required union fields")
    m.record(ns, "OptionalHolder", [
        F("plain", plain, opt=True), F("aliased", aliased, opt=True), F("nullable", nullable, opt=True),
        F("single", single, opt=True), F("empty", empty, opt=True),
    ], doc="optional union fields")
    m.record(ns, "DefaultHolder", [
        F("plainInt", plain, default={"int": 1}),
        F("plainString", plain, default={"string": "s"}),
        F("plainBytes", plain, default={"bytes": "\u0000ÿ"}),
        F("plainRecord", plain, default={ns + ".Point": {"x": 1}}),
        F("plainEnum", plain, default={ns + ".Kind": "B"}),
        F("plainArray", plain, default={"array": ["a", "b"]}),
        F("plainMap", plain, default={"map": {"k": {"x": 1, "y": 2}}}),
        F("aliasedCount", aliased, default={"count": 5}),
        F("aliasedNested", aliased, default={"nested": {"a": [{"b": {"x": 0}}]}}),
        F("nullableSet", nullable, default={"int": 0}),
        F("single", single, default={"string": ""}),
    ], doc="defaulted union fields")
    m.record(ns, "Containers", [
        F("array", A(plain)), F("map", M(aliased)), F("arrayOfNullable", A(nullable)),
        F("mapOfArray", M(A(plain)), opt=True),
        F("arrayDefault", A(aliased), default=[{"count": 1}, {"text": "t"}]),
        F("mapDefault", M(nullable), default={"k": {"int": 1}}),
    ], doc="unions inside arrays and maps")
    return m


# ---------------------------------------------------------------------------------------------------------- t-incl

@manifest
def t_incl():
    m = Manifest("t-incl")
    ns = "tincl"
    other = "tincl.base"
    c = m.record(other, "C", [
        F("cRequired", STRING, doc="required field declared only in C"),
        F("cDefault", INT64, default=-9223372036854775808, doc="default declared only in C"),
        F("cOptional", BYTES, opt=True),
    ], doc="root of the include chain, in another namespace")
    b = m.record(ns, "B", [
        F("bRequired", INT32, doc="required field declared only in B"),
        F("bDefault", STRING, default="from B", doc="default declared only in B"),
        F("bDefaultList", A(STRING), default=["b"]),
    ], includes=[c], doc="B includes C")
    a = m.record(ns, "A", [F("aOwn", BOOL, opt=True)], includes=[b], doc="A includes B includes C")
    m.record(ns, "AOnly", [], includes=[b], doc="no own fields at all, everything comes from B and C")
    empty = m.record(ns, "Empty", [], doc="a user-defined record without fields")
    m.record(ns, "IncludesEmpty", [F("own", INT32)], includes=[empty], doc="includes a user-defined empty record")
    m.record(ns, "IncludesRestliEmptyRecord", [F("own", INT32, default=3)], includes=[EMPTY_RECORD],
             doc="includes com.linkedin.restli.common.EmptyRecord (provided by go-restli itself)")
    m.record(ns, "OnlyIncludesEmpty", [], includes=[empty])
    d = m.record(ns, "D", [F("dField", F64, default=0.5)], doc="second, independent base")
    m.record(ns, "Multi", [F("own", STRING)], includes=[a, d], doc="includes two records (one of them a chain)")
    m.record(ns, "NoDefaultsOverDefaults", [F("plain", INT32)], includes=[d],
             doc="record without own defaults that includes a record with defaults")
    m.record(ns, "UsesChain", [
        F("a", a), F("optionalA", a, opt=True), F("defaultA", a, default={"bRequired": 1, "cRequired": "c"}),
        F("as", A(a)), F("byName", M(a)),
    ], doc="fields whose type is a record with includes")
    return m


# ---------------------------------------------------------------------------------------------------------- t-ckey

def all_methods(schema, params=(), return_entity=False):
    return [rest(n, schema, params, return_entity=return_entity and n in ("create", "batch_create", "partial_update"))
            for n in ALL_COLLECTION_METHODS]


@manifest
def t_ckey():
    m = Manifest("t-ckey")
    ns = "tckey"
    inner = m.record(ns, "Inner", [F("a", INT32), F("b", STRING, opt=True)])
    key = m.record(ns, "Key", [F("id", INT64), F("region", STRING)], doc="flat key record")
    nested_key = m.record(ns, "NestedKey", [
        F("inner", inner), F("tag", STRING, default="t"), F("tags", A(STRING), opt=True),
    ], doc="key record containing a nested record")
    params = m.record(ns, "KeyParams", [F("version", INT32, opt=True), F("inner", inner, opt=True)],
                      doc="complex key params record")
    value = m.record(ns, "Value", [F("message", STRING), F("count", INT32, opt=True)])

    # the spec parser names the type <ResourceName>_ComplexKey and puts it in the resource's namespace
    with_params = m.complex_key(ns + ".withParams", "WithParams_ComplexKey", key, params)
    nested = m.complex_key(ns + ".nested", "Nested_ComplexKey", nested_key, params)
    no_params = m.complex_key(ns + ".noParams", "NoParams_ComplexKey", key)
    empty_key = m.complex_key(ns + ".emptyKey", "EmptyKey_ComplexKey", R(*EMPTY_RECORD), params)

    m.record(ns, "HoldsKeys", [
        F("k", with_params), F("optional", nested, opt=True), F("list", A(no_params)), F("byName", M(with_params)),
    ], doc="complex keys used as ordinary field types")

    m.resource(ns + ".withParams", [("withParams", ("key", with_params))], value, all_methods(value))
    m.resource(ns + ".nested", [("nested", ("nestedId", nested))], value, all_methods(value))
    m.resource(ns + ".noParams", [("noParams", ("key", no_params))], value, all_methods(value))
    m.resource(ns + ".emptyKey", [("emptyKey", ("key", empty_key))], value, [rest("get", value)])
    # a collection keyed directly by a record (what the spec parser emits when the identifier has no "params")
    m.resource(ns + ".recordKey", [("recordKey", ("key", key))], value, all_methods(value))
    return m


# ---------------------------------------------------------------------------------------------------------- failing
# Well-formed inputs on which the generator misbehaves; written to v2/failing/. See FORMAT.md.

def failing(fn):
    def wrapped():
        return (fn(), "failing")
    MANIFESTS.append(wrapped)
    return fn


@failing
def f_union_only_null():
    m = Manifest("union-only-null", "verifcorpus/failing/uniononlynull")
    ns = "f"
    u = m.union(ns, "OnlyNull", [], has_null=True, doc="union[null]")
    m.record(ns, "Holder", [F("u", u, opt=True)])
    return m


def main():
    for fn in MANIFESTS:
        res = fn()
        if isinstance(res, tuple):
            res[0].write(res[1])
        else:
            res.write()


if __name__ == "__main__":
    main()
