package tcustom

import (
	"fmt"
	"strings"

	"github.com/PapaCharlie/go-restli/v2/fnv1a"
)

// Email is the hand-written implementation of the custom typeref tcustom.Email (string on the wire).
type Email struct {
	Local, Domain string
}

func MarshalEmail(e Email) (string, error) {
	if e.Domain == "" {
		return "", fmt.Errorf("email %q has no domain", e.Local)
	}
	return e.Local + "@" + e.Domain, nil
}

func UnmarshalEmail(s string) (e Email, err error) {
	i := strings.LastIndexByte(s, '@')
	if i < 0 {
		return e, fmt.Errorf("illegal email %q", s)
	}
	return Email{Local: s[:i], Domain: s[i+1:]}, nil
}

func EqualsEmail(e1, e2 Email) bool {
	return e1 == e2
}

func ComputeHashEmail(e Email) fnv1a.Hash {
	h := fnv1a.NewHash()
	h.AddString(e.Local)
	h.AddString(e.Domain)
	return h
}
