package tcustom

import (
	"github.com/PapaCharlie/go-restli/v2/fnv1a"
)

// Temperature is the hand-written implementation of the custom typeref tcustom.Temperature (int32 on the wire, a
// struct in Go).
type Temperature struct {
	MilliKelvin int64
}

func MarshalTemperature(t Temperature) (int32, error) {
	return int32(t.MilliKelvin / 1000), nil
}

func UnmarshalTemperature(k int32) (Temperature, error) {
	return Temperature{MilliKelvin: int64(k) * 1000}, nil
}

func EqualsTemperature(t1, t2 Temperature) bool {
	return t1 == t2
}

func ComputeHashTemperature(t Temperature) fnv1a.Hash {
	return fnv1a.HashInt64(t.MilliKelvin)
}

func (t Temperature) Pointer() *Temperature {
	return &t
}
