package ids

import (
	"fmt"

	"github.com/PapaCharlie/go-restli/v2/fnv1a"
)

// UUID is the hand-written implementation of the custom typeref tcustom.ids.UUID (bytes on the wire).
type UUID [16]byte

func MarshalUUID(u UUID) ([]byte, error) {
	return u[:], nil
}

func UnmarshalUUID(b []byte) (u UUID, err error) {
	if len(b) != len(u) {
		return u, fmt.Errorf("illegal UUID length %d", len(b))
	}
	copy(u[:], b)
	return u, nil
}

func EqualsUUID(u1, u2 UUID) bool {
	return u1 == u2
}

func ComputeHashUUID(u UUID) fnv1a.Hash {
	h := fnv1a.NewHash()
	h.AddBytes(u[:])
	return h
}
