# Offline Go environment for every command of /verif (sourced, not executed).
export GOFLAGS=-mod=mod GOPROXY=off GOSUMDB=off GOTOOLCHAIN=local CGO_ENABLED=0
unset GOWORK
