#!/bin/sh
# Demonstration of F17 (property C13) and of the unanchored empty-default regex (C13):
# generates corpus/v2/t-incl.json and t-nest.json with the generator of the tree given as $1
# (default /repo) and decodes documents that omit the defaulted fields.
# Before the fixes: "BDefault=<nil>" (default declared in an included record never applied) and
# "ArrayOfEmptyArray=[]" (default [[]] dropped).  After: "BDefault=from B", "ArrayOfEmptyArray=[[]]".
. /verif/env.sh
S=$(mktemp -d /root/scratch/f17.XXXX) || exit 2
trap 'rm -rf "$S"' EXIT
(cd /verif/gen/v2 && go build -o "$S/gen" .) || exit 2
"$S/gen" /verif/corpus/v2/t-incl.json "$S/incl" >/dev/null 2>&1 || exit 2
"$S/gen" /verif/corpus/v2/t-nest.json "$S/nest" >/dev/null 2>&1 || exit 2
mkdir -p "$S/incl/cmd/demo" "$S/nest/cmd/demo"
cat > "$S/incl/cmd/demo/main.go" <<'GO'
package main

import (
	"fmt"
	"verifcorpus/tincl/tincl"
)

func main() {
	a := new(tincl.A)
	err := a.UnmarshalJSON([]byte(`{"bRequired":1,"cRequired":"c"}`))
	fmt.Printf("err=%v BDefault=%v CDefault=%v\n", err, deref(a.BDefault), a.CDefault != nil)
}

func deref(s *string) interface{} {
	if s == nil {
		return nil
	}
	return *s
}
GO
cat > "$S/nest/cmd/demo/main.go" <<'GO'
package main

import (
	"fmt"
	"verifcorpus/tnest/tnest"
)

func main() {
	n := tnest.NewNestedEmptyDefaultsWithDefaultValues()
	fmt.Printf("ArrayOfEmptyArray=%v\n", *n.ArrayOfEmptyArray)
}
GO
(cd "$S/incl" && go run ./cmd/demo)
(cd "$S/nest" && go run ./cmd/demo)
