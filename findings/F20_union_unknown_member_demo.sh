#!/bin/sh
# Demonstration of F20 (property C11): a union document with an unknown member key is accepted through the
# untyped-value reader and yields a union with NO member set (before the fix); after the fix it is an error.
# Also: union[null, T] with a single member did not compile before the fix (generated "isSet declared and not used").
. /verif/env.sh
S=$(mktemp -d /root/scratch/f20.XXXX) || exit 2
trap 'rm -rf "$S"' EXIT
(cd /verif/gen/v2 && go build -o "$S/gen" .) || exit 2
"$S/gen" /verif/corpus/v2/t-union.json "$S/u" >/dev/null 2>&1 || exit 2
mkdir -p "$S/u/cmd/demo"
cat > "$S/u/cmd/demo/main.go" <<'GO'
package main

import (
	"fmt"

	"github.com/PapaCharlie/go-restli/v2/restlicodec"
	"verifcorpus/tunion/tunion"
)

func main() {
	p := new(tunion.Plain)
	err := p.UnmarshalRestLi(restlicodec.NewInterfaceReader(map[string]any{"noSuchMember": 1}))
	fmt.Printf("err=%v validate=%v\n", err, p.ValidateUnionFields())
}
GO
(cd "$S/u" && go run ./cmd/demo)
"$S/gen" /verif/corpus/v2/t-union-nullable1.json "$S/n" >/dev/null 2>&1 && (cd "$S/n" && go vet ./... && echo "union[null,T] compiles")
