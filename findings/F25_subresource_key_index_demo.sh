#!/bin/sh
# Demonstration of F25 (property C02): a collection under a *simple* parent (/root/items/{itemId}).
# The generated UnmarshalResourcePath indexed the key readers by path-segment position instead of by key
# position: the server has one reader (for itemId) but the code read segments[1] -> index out of range,
# recovered as a 500.  After the fix the call reaches the resource with itemId "abc".
. /verif/env.sh
S=$(mktemp -d /root/scratch/f25.XXXX) || exit 2
trap 'rm -rf "$S"' EXIT
(cd /verif/gen/v2 && go build -o "$S/gen" .) || exit 2
"$S/gen" /verif/corpus/v2/r-sub.json "$S/o" >/dev/null 2>&1 || exit 2
mkdir -p "$S/o/cmd/demo"
cat > "$S/o/cmd/demo/main.go" <<'GO'
package main

import (
	"fmt"
	"net/http/httptest"

	"github.com/PapaCharlie/go-restli/v2/restli"
	"verifcorpus/rsub/rsub"
	items "verifcorpus/rsub/rsub/root/items"
	itemstest "verifcorpus/rsub/rsub/root/items_test"
)

func main() {
	s := restli.NewServer()
	got := ""
	items.RegisterResource(s, &itemstest.MockResource{
		MockGet: func(ctx *restli.RequestContext, itemId string) (*rsub.Child, error) {
			got = itemId
			return rsub.NewChildWithDefaultValuesOrNew(), nil
		},
	})
	rec := httptest.NewRecorder()
	s.Handler().ServeHTTP(rec, httptest.NewRequest("GET", "/root/items/abc", nil))
	fmt.Printf("status=%d itemId=%q\n", rec.Code, got)
}
GO
sed -i 's/rsub.NewChildWithDefaultValuesOrNew()/new(rsub.Child)/' "$S/o/cmd/demo/main.go"
(cd "$S/o" && go run ./cmd/demo 2>&1 | grep -v "^20\|Failed to handle\|goroutine\|^\s\|^$" | tail -2)
