module verifgen/root

go 1.18

require github.com/PapaCharlie/go-restli v0.0.0

require (
	github.com/dave/jennifer v1.7.0 // indirect
	github.com/inconshreveable/mousetrap v1.0.0 // indirect
	github.com/josharian/intern v1.0.0 // indirect
	github.com/mailru/easyjson v0.7.2 // indirect
	github.com/pkg/errors v0.8.1 // indirect
	github.com/spf13/cobra v1.0.0 // indirect
	github.com/spf13/pflag v1.0.5 // indirect
)

replace github.com/PapaCharlie/go-restli => /repo
