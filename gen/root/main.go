// Command gen-root runs the ROOT module's generator (github.com/PapaCharlie/go-restli/cmd.GenerateCode, the older
// generation of the library) on a spec derived from a manifest of /verif/corpus/v2: the root generator reads
// {"dataTypes": [...], "resources": [...]}, whose entries have the shape of the v2 manifest's
// dependencyDataTypes + inputDataTypes and resources.  The generated tree becomes a module of its own (go.mod with a
// replace of the root module to /repo, or to the tree named by VERIF_REPO), which the checker loads and type-checks.
//
// usage: gen-root <manifest.json> <outdir>
package main

import (
	"bufio"
	"encoding/json"
	"fmt"
	"os"
	"path/filepath"
	"strings"

	"github.com/PapaCharlie/go-restli/cmd"
	"github.com/PapaCharlie/go-restli/codegen/utils"
)

const (
	rootModule = "github.com/PapaCharlie/go-restli"
	prefix     = "verifroot"
)

func repoDir() string {
	if r := os.Getenv("VERIF_REPO"); r != "" {
		return r
	}
	return "/repo"
}

func main() {
	if len(os.Args) != 3 {
		fmt.Fprintln(os.Stderr, "usage: gen-root <manifest.json> <outdir>")
		os.Exit(2)
	}
	if err := run(os.Args[1], os.Args[2]); err != nil {
		fmt.Fprintln(os.Stderr, err)
		os.Exit(1)
	}
}

func run(manifestFile, outDir string) error {
	data, err := os.ReadFile(manifestFile)
	if err != nil {
		return err
	}
	var m map[string]json.RawMessage
	if err = json.Unmarshal(data, &m); err != nil {
		return fmt.Errorf("reading manifest %s: %w", manifestFile, err)
	}
	var all []json.RawMessage
	for _, k := range []string{"dependencyDataTypes", "inputDataTypes"} {
		var part []json.RawMessage
		if m[k] != nil {
			if err = json.Unmarshal(m[k], &part); err != nil {
				return err
			}
		}
		all = append(all, part...)
	}
	allBytes, _ := json.Marshal(all)
	spec := map[string]json.RawMessage{"dataTypes": allBytes, "resources": m["resources"]}
	if spec["resources"] == nil {
		spec["resources"] = json.RawMessage("[]")
	}
	specBytes, _ := json.Marshal(spec)
	outDir, err = filepath.Abs(outDir)
	if err != nil {
		return err
	}
	utils.PackagePrefix = prefix
	if err = cmd.GenerateCode(specBytes, outDir); err != nil {
		return err
	}
	indirect, err := requirements(filepath.Join(repoDir(), "go.mod"))
	if err != nil {
		return err
	}
	goMod := fmt.Sprintf("module %s\n\ngo 1.18\n\nrequire %s v0.0.0\n\n%sreplace %s => %s\n", prefix, rootModule, indirect, rootModule, repoDir())
	if err = os.WriteFile(filepath.Join(outDir, "go.mod"), []byte(goMod), 0o644); err != nil {
		return err
	}
	sum, err := os.ReadFile(filepath.Join(repoDir(), "go.sum"))
	if err != nil {
		return err
	}
	return os.WriteFile(filepath.Join(outDir, "go.sum"), sum, 0o644)
}

// requirements copies the requirements of the root module's go.mod as indirect requirements of the generated module.
func requirements(goMod string) (string, error) {
	f, err := os.Open(goMod)
	if err != nil {
		return "", err
	}
	defer f.Close()
	var b strings.Builder
	in := false
	sc := bufio.NewScanner(f)
	for sc.Scan() {
		line := strings.TrimSpace(sc.Text())
		switch {
		case strings.HasPrefix(line, "require ("):
			in = true
		case in && line == ")":
			in = false
		case in && line != "":
			fields := strings.Fields(line)
			if len(fields) >= 2 {
				fmt.Fprintf(&b, "require %s %s // indirect\n", fields[0], fields[1])
			}
		}
	}
	if b.Len() > 0 {
		b.WriteString("\n")
	}
	return b.String(), sc.Err()
}
