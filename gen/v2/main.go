// Command gen-v2 runs the CURRENT /repo/v2 code generator (packages cmd, codegen/...) on one hand-written
// go-restli manifest and turns the output directory into a self-contained Go module that type-checks offline.
//
//	gen-v2 <manifest.json> <outdir> [<overlaydir>]
//
// Order of operations (mirrors what cmd.GenerateCode expects):
//  1. the manifest is parsed with cmd.ReadManifest,
//  2. <outdir> is created and, if given, the tree under <overlaydir> is copied into it. cmd.GenerateCode starts with
//     utils.CleanTargetDir, which only removes *.gr.go files, the manifest file and empty directories, so hand-written
//     custom typeref implementations (<TypeName>.go) survive and are then seen by cmd.LocateCustomTyperefs,
//  3. cmd.GenerateCode(outdir, {manifest}, false) is called; panics (the generator uses log.Panicf) are recovered and
//     reported,
//  4. <outdir>/go.mod (module path == manifest packageRoot, replace of the v2 module to /repo/v2) and <outdir>/go.sum
//     (copy of /repo/v2/go.sum) are written.
//
// The generator's type registry is a process global: one process == one manifest.
package main

import (
	"fmt"
	"io"
	"io/fs"
	"log"
	"os"
	"path/filepath"
	"runtime/debug"
	"strings"

	"github.com/PapaCharlie/go-restli/v2/cmd"
)

const v2Module = "github.com/PapaCharlie/go-restli/v2"

// v2Dir is the runtime the generated module is type-checked against: /repo/v2, or the tree named by VERIF_REPO when the
// checker is pointed at a scratch copy (development: restlicheck -repo).
var v2Dir = func() string {
	if r := os.Getenv("VERIF_REPO"); r != "" {
		return filepath.Join(r, "v2")
	}
	return "/repo/v2"
}()

func main() {
	if len(os.Args) < 3 || len(os.Args) > 4 {
		fmt.Fprintln(os.Stderr, "usage: gen-v2 <manifest.json> <outdir> [<overlaydir>]")
		os.Exit(2)
	}
	overlay := ""
	if len(os.Args) == 4 {
		overlay = os.Args[3]
	}
	if err := run(os.Args[1], os.Args[2], overlay); err != nil {
		fmt.Fprintf(os.Stderr, "gen-v2: FAILED: %v\n", err)
		os.Exit(1)
	}
}

func run(manifestFile, outDir, overlay string) (err error) {
	// log.Panicf writes the message to the logger before panicking; keep the generator's chatter on stderr.
	log.SetOutput(os.Stderr)

	data, err := os.ReadFile(manifestFile)
	if err != nil {
		return err
	}

	manifest, err := readManifest(data)
	if err != nil {
		return fmt.Errorf("reading manifest %s: %w", manifestFile, err)
	}
	if manifest.PackageRoot == "" {
		return fmt.Errorf("manifest %s has no packageRoot", manifestFile)
	}

	outDir, err = filepath.Abs(outDir)
	if err != nil {
		return err
	}
	if err = os.MkdirAll(outDir, 0o755); err != nil {
		return err
	}
	if overlay != "" {
		if err = copyTree(overlay, outDir); err != nil {
			return fmt.Errorf("copying overlay %s: %w", overlay, err)
		}
	}

	if err = generate(outDir, manifest); err != nil {
		return err
	}

	indirect, err := indirectRequirements(filepath.Join(v2Dir, "go.mod"))
	if err != nil {
		return err
	}
	goMod := fmt.Sprintf("module %s\n\ngo 1.18\n\nrequire %s v2.0.0\n\n%sreplace %s => %s\n",
		manifest.PackageRoot, v2Module, indirect, v2Module, v2Dir)
	if err = os.WriteFile(filepath.Join(outDir, "go.mod"), []byte(goMod), 0o644); err != nil {
		return err
	}
	return copyFile(filepath.Join(v2Dir, "go.sum"), filepath.Join(outDir, "go.sum"), 0o644)
}

// indirectRequirements lists every requirement of the v2 module as an "// indirect" requirement of the generated
// module, so that the generated go.mod is complete (loadable with -mod=readonly) without running `go mod tidy`.
func indirectRequirements(goModFile string) (string, error) {
	data, err := os.ReadFile(goModFile)
	if err != nil {
		return "", err
	}
	var reqs []string
	inBlock := false
	for _, line := range strings.Split(string(data), "\n") {
		line = strings.TrimSpace(line)
		if i := strings.Index(line, "//"); i >= 0 {
			line = strings.TrimSpace(line[:i])
		}
		switch {
		case line == "require (":
			inBlock = true
		case line == ")":
			inBlock = false
		case inBlock && line != "":
			reqs = append(reqs, line)
		case strings.HasPrefix(line, "require "):
			reqs = append(reqs, strings.TrimSpace(strings.TrimPrefix(line, "require ")))
		}
	}
	if len(reqs) == 0 {
		return "", nil
	}
	b := new(strings.Builder)
	b.WriteString("require (\n")
	for _, r := range reqs {
		fmt.Fprintf(b, "\t%s // indirect\n", r)
	}
	b.WriteString(")\n\n")
	return b.String(), nil
}

func readManifest(data []byte) (m *cmd.GoRestliManifest, err error) {
	defer func() {
		if r := recover(); r != nil {
			err = fmt.Errorf("generator PANIC in cmd.ReadManifest: %v\n%s", r, debug.Stack())
		}
	}()
	return cmd.ReadManifest(data)
}

func generate(outDir string, manifest *cmd.GoRestliManifest) (err error) {
	defer func() {
		if r := recover(); r != nil {
			err = fmt.Errorf("generator PANIC in cmd.GenerateCode: %v\n%s", r, debug.Stack())
		}
	}()
	err = cmd.GenerateCode(outDir, []*cmd.GoRestliManifest{manifest}, false)
	if err != nil {
		return fmt.Errorf("generator error from cmd.GenerateCode: %w", err)
	}
	return nil
}

func copyTree(src, dst string) error {
	return filepath.WalkDir(src, func(path string, d fs.DirEntry, err error) error {
		if err != nil {
			return err
		}
		rel, err := filepath.Rel(src, path)
		if err != nil {
			return err
		}
		target := filepath.Join(dst, rel)
		if d.IsDir() {
			return os.MkdirAll(target, 0o755)
		}
		if strings.HasSuffix(d.Name(), ".gr.go") {
			return fmt.Errorf("overlay file %s would be deleted by the generator's CleanTargetDir", path)
		}
		return copyFile(path, target, 0o644)
	})
}

func copyFile(src, dst string, mode os.FileMode) error {
	in, err := os.Open(src)
	if err != nil {
		return err
	}
	defer in.Close()
	_ = os.Remove(dst)
	out, err := os.OpenFile(dst, os.O_CREATE|os.O_TRUNC|os.O_WRONLY, mode)
	if err != nil {
		return err
	}
	if _, err = io.Copy(out, in); err != nil {
		out.Close()
		return err
	}
	return out.Close()
}
