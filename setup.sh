#!/bin/sh
# Build the checker from files on disk and the module cache only.
set -e
cd "$(dirname "$0")"
. ./env.sh
mkdir -p bin evidence
(cd checker && go build -o ../bin/restlicheck ./cmd/restlicheck)
