#!/bin/sh
# Runs the pinned test suite on a repo tree (default /repo) and compares the
# set of passing tests with BASELINE.json.  Development tooling only.
. /verif/env.sh
R="${1:-/repo}"
out=$(mktemp)
for m in . v2; do (cd "$R/$m" && go test -mod=mod -json -vet=off -count=1 -timeout 25m ./... 2>/dev/null); done > "$out"
python3 - "$out" <<'PY'
import json,sys
passed=set()
for l in open(sys.argv[1]):
    try: e=json.loads(l)
    except: continue
    if e.get('Action')=='pass' and e.get('Test'):
        passed.add(e['Package']+'::'+e['Test'])
base=set(json.load(open('/root/.vp/BASELINE.json'))['stable_pass'])
missing=sorted(base-passed)
print('passed',len(passed),'baseline',len(base),'missing',len(missing))
for m in missing[:20]: print('  MISSING',m)
sys.exit(1 if missing else 0)
PY
rc=$?; rm -f "$out"; exit $rc
