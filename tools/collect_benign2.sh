#!/bin/sh
# collect_benign2.sh <Cxx>: copies the round-2 refactorings of a finished sub-agent from its scratch worktree into
# /verif/benign/<Cxx>-c<N>/ and removes the worktree.  Development tooling.
id=$1; wt=/root/scratch/wtb2-$id
[ -d $wt/_benign ] || { echo "no _benign in $wt"; exit 1; }
for d in $wt/_benign/*/; do n=$(basename $d); dst=/verif/benign/$id-c$n; rm -rf $dst; mkdir -p $dst; cp -r $d. $dst/; echo "collected $dst: $(head -1 $dst/README.md | cut -c1-120)"; done
git -C /repo worktree remove --force $wt
