#!/bin/sh
# collect_benign2.sh <Cxx> [<worktree-prefix> <suffix-letter>]: copies the refactorings of a finished sub-agent from its scratch
# worktree (<prefix>-<Cxx>/_benign/N) into /verif/benign/<Cxx>-<letter><N>/ and removes the worktree.  Round 2: wtb2 / c
# (default); round 3: wtb3 / d.  Development tooling.
id=$1; pre=${2:-wtb2}; let=${3:-c}; wt=/root/scratch/$pre-$id
[ -d $wt/_benign ] || { echo "no _benign in $wt"; exit 1; }
for d in $wt/_benign/*/; do n=$(basename $d); dst=/verif/benign/$id-$let$n; rm -rf $dst; mkdir -p $dst; cp -r $d. $dst/; echo "collected $dst: $(head -1 $dst/README.md | cut -c1-120)"; done
git -C /repo worktree remove --force $wt
