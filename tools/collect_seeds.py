#!/usr/bin/env python3
"""collect_seeds.py <worktree> <property> <first-number>: copies <worktree>/_seed/N to /verif/seeded/<property>-<first+N-1>
and appends a row to tools/seeds.tsv (demo file, destination dir, package, test regexp) derived from the seed's own files."""
import sys, os, re, glob, shutil
wt, prop, first = sys.argv[1], sys.argv[2], int(sys.argv[3])
rows=[]
for n in sorted(os.listdir(wt+'/_seed')):
    src=wt+'/_seed/'+n
    if not os.path.isdir(src): continue
    sid='%s-%d'%(prop, first+int(n)-1)
    dst='/verif/seeded/'+sid
    if os.path.exists(dst): shutil.rmtree(dst)
    shutil.copytree(src,dst)
    readme=open(dst+'/README.md').read() if os.path.exists(dst+'/README.md') else ''
    tests=[f for f in os.listdir(dst) if f.endswith('_test.go')]
    if os.path.exists(dst+'/run.sh'):
        for f in glob.glob(dst+'/run.sh'):
            s=open(f).read().replace('. /tmp/seedtools/env.sh','. /verif/env.sh'); open(f,'w').write(s)
        rows.append((sid,'run.sh','-','-','-'))
        continue
    if len(tests)!=1:
        print(sid,'MANUAL: demo files',tests); rows.append((sid,'?','?','?','?')); continue
    demo=tests[0]
    m=re.search(r'`?((?:v2/)?[A-Za-z0-9_/]+)/'+re.escape(demo)+'`?',readme) or re.search(r'((?:v2/)[A-Za-z0-9_/]+)/[A-Za-z0-9_]+_test\.go',readme)
    destdir=m.group(1) if m else '?'
    if not destdir.startswith('v2/') and destdir!='?': destdir='v2/'+destdir if os.path.isdir(wt+'/v2/'+destdir) else destdir
    names=re.findall(r'^func (Test\w+)\(',open(dst+'/'+demo).read(),re.M)
    pre=os.path.commonprefix(names) if names else '?'
    pkg='./'+destdir[3:] if destdir.startswith('v2/') else '?'
    rows.append((sid,demo,destdir,pkg,pre))
with open('/verif/tools/seeds.tsv','a') as f:
    for r in rows:
        f.write('\t'.join(r)+'\n'); print('\t'.join(r))
