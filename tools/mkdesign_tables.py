#!/usr/bin/env python3
"""Prints the generated tables of DESIGN.md section 10 (rules, fixes, mutants, seeds) from the files they summarise."""
import json, glob, os, subprocess, re
V='/verif'
print('### 10.2 Rule inventory as built\n')
print('`bin/restlicheck -list` (T = analysed in /repo, G = analysed in the generated corpus).\n')
print('| rule | properties | what it decides |')
print('|---|---|---|')
out=subprocess.run([V+'/bin/restlicheck','-list'],capture_output=True,text=True).stdout
gen=set(re.findall(r'ID:\s+"([^"]+)",\s*Generated: true', open(V+'/checker/rules/g_rules.go').read()+open(V+'/checker/rules/g_resources.go').read()+open(V+'/checker/rules/x_strengthen.go').read()))
rows=[]
for l in out.splitlines():
    m=re.match(r'(\S+)\s+\[([^\]]*)\]\s+(.*)',l)
    if m: rows.append(m.groups())
def key(r):
    m=re.match(r'R(\d+)\.?(\d*)(.*)',r[0]); return (int(m.group(1)), int(m.group(2) or 0), m.group(3))
for r in sorted(rows,key=key):
    print('| %s %s | %s | %s |'%(r[0],'G' if r[0] in gen else 'T',r[1],r[2]))
print()
d=json.load(open(V+'/known_findings.json'))
print('### 10.3 Genuine defects repaired in /repo (`fix:` commits, in order)\n')
print('| # | property | commit | what failed |')
print('|---|---|---|---|')
for i,f in enumerate(d['fixed'],1):
    m=re.match(r'fixed: property=(\S+) (\S+) (.*)',f)
    print('| %d | %s | %s | %s |'%(i,m.group(1),m.group(2),m.group(3).replace('|','\\|')))
print()
print('Known findings (recorded, not repaired; thorough tier of C12 only): %d generator defects, one per manifest under `corpus/v2/failing/`:\n'%len(d['findings']))
for f in d['findings']:
    print('* `%s` — %s'%(f['module'].split('/')[-1], f.get('what_fails','').split(': ',1)[-1][:200]))
print()
print('### 10.5 Which check catches which change\n')
print('Hand-written mutants (`mutants/*.patch`, `tools/selftest.sh`): each still compiles, is applied to /repo, the owning check must exit 1 naming the rule, then it is undone.\n')
print('| mutant | property | rule that fires |')
print('|---|---|---|')
for p in sorted(glob.glob(V+'/mutants/*.json')):
    m=json.load(open(p)); print('| %s | %s | %s |'%(m['name'],m['property'],m['rule']))
print()
print('Independently seeded changes (`seeded/<id>/`, `tools/verify_seeds.sh`, `tools/run_seeds.sh`): produced by fresh sub-agents that saw only the property text; every one compiles, passes the 316 pinned tests and has a demonstration that fails with it and passes without it (confirmed by me in a scratch worktree).\n')
print('| seed | change | needs to manifest | first run | caught by (today) | what was strengthened |')
print('|---|---|---|---|---|---|')
for p in sorted(glob.glob(V+'/seeded/*/meta.json')):
    m=json.load(open(p)); c=m['checked']
    print('| %s | %s | %s | %s | %s | %s |'%(m['id'],m['change'].replace('|','\\|'),m['needs_to_manifest'].replace('|','\\|'),c.get('first_run','CAUGHT'),c['rule'],c.get('strengthening','—')))
print()
print('<!-- BENIGN-TABLE-BEGIN -->')
print('| refactoring | what it does | first run | rules that alarmed | today |')
print('|---|---|---|---|---|')
for p in sorted(glob.glob(V+'/benign/*/meta.json')):
    m=json.load(open(p))
    print('| %s | %s | %s | %s | %s |'%(m['id'],m['what'].replace('|','\\|'),m['first_run'],' '.join(m['first_run_rules']) or '—',m['now']))
print('<!-- BENIGN-TABLE-END -->')
