#!/usr/bin/env python3
"""Regenerates /verif/MANIFEST.json from tools/claims.json (development tooling)."""
import json, os, sys
V = '/verif'
props = [json.loads(l) for l in open(f'{V}/properties.jsonl')]
claims = json.load(open(f'{V}/tools/claims.json'))
checks, na = [], []
for p in props:
    c = claims.get(p['id'])
    if not c or not c.get('claimed'):
        na.append({"property_id": p['id'], "reason": (c or {}).get('reason', 'check not implemented yet (DESIGN.md §7 gives the order of work)')})
        continue
    checks.append({
        "property_id": p['id'],
        "quick_cmd": f"./check {p['id']} quick",
        "thorough_cmd": f"./check {p['id']} thorough",
        "evidence_file": f"/verif/evidence/{p['id']}.json",
        "replay_cmd_template": f"./check {p['id']} quick --explain {{path}}",
        "engine": "restlicheck",
        "level_claimed": {"category": "other", "text": c['text'], "design_ref": c.get('design_ref', f"DESIGN.md §2 {p['id']}")},
        "level_note": c['note'],
        "technique": c['technique'],
    })
m = {
    "version": 1,
    "setup_cmd": "./setup.sh",
    "hooks": {"guard": "verif", "enable": "none: no hooks — the checker reads /repo's source and never builds it with instrumentation",
              "baseline_off_cmd": "for m in . v2; do (cd /repo/$m && GOFLAGS=-mod=mod go test -vet=off -count=1 -timeout 25m ./...); done",
              "source_commits": [], "add_only": True},
    "engines": [{"name": "restlicheck", "path": "/verif/checker", "serves_properties": [c['property_id'] for c in checks],
                 "kind_free_text": "repository-specific static analyser: go/packages + go/types + go/cfg automata + go/ssa provenance over /repo's two modules and over bindings generated from /verif/corpus"}],
    "checks": checks,
    "not_applicable": na,
    "notes": "All checks are static: they load /repo's current source (both modules) on every run and decide per-path / per-site / per-generated-type obligations; see DESIGN.md. known_findings.json lists recorded genuine defects and fix: commits.",
}
json.dump(m, open(f'{V}/MANIFEST.json', 'w'), indent=1)
print('claimed', len(checks), 'not_applicable', len(na))
