#!/usr/bin/env python3
"""Writes benign/<id>-<letter><N>/meta.json for a benign round (development tooling).
usage: mkmeta_benign.py <letter> <round> <first run output> <final run output>"""
import json, re, sys, glob, os
V = '/verif'
def parse(path):
    out, cur = {}, None
    for l in open(path):
        m = re.match(r'(SILENT|ALARM) +(C\d\d-\w+)', l)
        if m:
            cur = m.group(2)
            out[cur] = [m.group(1), set()]
        if cur:
            for r in re.findall(r'\[(R[\d.]+\w*)\]|FLOOR: (R[\d.]+\w*)/', l):
                out[cur][1].add(r[0] or r[1])
    return out
letter, rnd = sys.argv[1], int(sys.argv[2])
first = parse(sys.argv[3])
final = parse(sys.argv[4])
n = 0
for d in sorted(glob.glob(V + '/benign/C*-' + letter + '*')):
    bid = os.path.basename(d)
    what = ''
    for md in sorted(glob.glob(d + '/*.md')):
        for l in open(md):
            if l.startswith('#'):
                what = l.lstrip('# ').strip()
                break
        if what:
            break
    f = first.get(bid, ['?', set()])
    meta = {'id': bid, 'property': bid[:3], 'round': rnd, 'what': what, 'first_run': f[0], 'first_run_rules': sorted(f[1]), 'now': final.get(bid, ['?'])[0]}
    if meta['now'] == 'ALARM':
        meta['now_rules'] = sorted(final[bid][1])
    json.dump(meta, open(d + '/meta.json', 'w'), indent=1)
    n += 1
print(n, 'meta files')
