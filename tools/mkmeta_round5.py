#!/usr/bin/env python3
"""Writes seeded/<id>/meta.json for the fifth seeding round from the stored run outputs (development tooling).
usage: mkmeta_round5.py <final run_seeds output>"""
import json, re, sys, os
V = '/verif'
change = {
 'C01-8': ('ParseQueryParams goes through url.ParseQuery: values are percent-decoded before the ROR2 reader decodes them again', 'a query value containing an escaped percent sign or plus (%25, %2B, `;`)', 'R02.6 registered for C01 as well'),
 'C01-9': ('JSON integers are read through float64', 'a long beyond 2^53', ''),
 'C02-8': ('formatQueryUrl clears the base on the resolver\'s own *url.URL (`base := hostUrl`)', 'two consecutive calls through a resolver that hands out the same pointer, with a context path', 'R15.6 registered for C02 as well'),
 'C02-9': ('BatchResponse.MarshalRestLi leaves out empty results / statuses / errors sections', 'a batch call whose results (or every section) is empty', 'new R02.7: an envelope marshaler writes, on every success path, what its own decoder requires'),
 'C03-8': ('bytes take the ASCII fast path for `> RuneSelf` instead of `>=`', 'a bytes value containing 0x80', ''),
 'C03-9': ('ror2Reader.Skip returns on the closing parenthesis that brings its own depth to zero', 'an unknown field whose value is a map or list, followed by another field', 'new R03.4: the loop body of Skip read as a decision table (byte x primitive/array/map x depth) against the ROR2 grammar'),
 'C04-8': ('jsonReader.ReadMap samples lexer.IsStart() after IsNull() has fetched a token', 'bytes appended after the closing brace of a request body', 'new R04.10: IsStart is sampled before any other lexer call; success returns of the outermost value pass Consumed()'),
 'C04-9': ('partial_update dropped from the methods that need an entity segment', 'PARTIAL_UPDATE sent to the collection URL without a key', ''),
 'C05-8': ('method inference looks at ids before q / entity', 'requests without the method header that carry both', ''),
 'C05-9': ('DecodeTunnelledQuery runs after the verb was read', 'a tunnelled GET / DELETE', ''),
 'C06-8': ('the required-fields set of readRecord comes from a sync.Pool and is never cleared', 'a record that fails half way, followed by any other record', 'R17.9 registered for C06 (and the other codec properties); reset coverage computed field by field, across Get and Put sites'),
 'C06-9': ('ror2Reader.Skip handles `,` and `)` in one case and decrements the depth for both', 'an unknown field whose value is a nested list with several items', 'new R03.4 (registered for C06)'),
 'C07-8': ('JSON readers are pooled; reset() leaves currentScope as it was', 'a request that fails inside a nested scope, followed by a create carrying a read-only field', 'R17.9 registered for C07; a reset through a method counts for exactly the fields the method assigns'),
 'C07-9': ('NewPathSpec ends every directive in one shared package-level leaf map', 'two directives where one continues below the end of the other (`a/b` and `a/b/c` or `x/b`, `y/b/c`)', 'new R07.11: every value stored into a PathSpec is a map made for that entry'),
 'C08-8': ('the 500 fallback for an error without a status applies only while ctx.ResponseStatus is still 200', 'an implementation that sets ResponseStatus and then fails with a status-less error', 'new R08.9: every path through the *ErrorResponse branch assigns ResponseStatus'),
 'C08-9': ('error bodies are read through io.LimitReader(16 KiB)', 'an error response larger than 16 KiB', 'new R08.8: no bounded read of an http.Response body'),
 'C09-8': ('ids are sorted only on the ids-only path of the batch key set', 'batch calls with additional query parameters', ''),
 'C09-9': ('query parameters sorted by their rendered name=value text', 'parameter names where one is a prefix of another followed by a byte below `=`', ''),
 'C10-8': ('float32 -0 is canonicalised through a uint64 helper that no longer sees the sign bit', 'float32 +0 / -0 as a key or field', ''),
 'C10-9': ('generated Equals tests its operands against nil before it tests them for identity', 'nil.Equals(nil) of a generated pointer type (absent optional records)', 'new R10.9 [G]: no `return false` before the identity test has failed'),
 'C11-8': ('the generated enum decoder assigns only when the symbol is known', 'an unknown symbol decoded into a variable that already holds a symbol', 'R11.3: the lookup is assigned to the receiver on every success path (CFG)'),
 'C11-9': ('WriteArray keeps marshalling after a failed item and returns only the last item\'s error', 'an array whose invalid element is not the last one', 'new R11.7: no error variable is overwritten before it was read (loop back edges included)'),
 'C12-8': ('CodeFile.Write records the package being written in the process-wide import-name table', 'namespaces with a cycle (types moved to conflictResolution) plus an outside referrer; several runs compared', 'new R12.10: no function reachable from (*CodeFile).Write stores into a package-level table (VTA call graph)'),
 'C12-9': ('the manifest is marshalled before LocateCustomTyperefs marks the custom typerefs', 'a custom typeref with a hand-written implementation; the written manifest compared', 'new R12.11: nothing that may store through the manifest runs between its serialisation and the write (mutation summaries)'),
 'C13-8': ('defaults inherited through two or more include levels are dropped', 'include chains two deep', ''),
 'C13-9': ('optional arrays / maps are decoded through ReadArrayPointer / ReadMapPointer, which return nil for an empty collection', 'a defaulted array field that is present and empty', 'new R13.5 [G]: a present optional field is assigned new(T)/&v or the result of a function that never returns (nil, nil)'),
 'C14-8': ('in-place tunnelling leaves a stale GetBody', 'a tunnelled request that is redirected / retried', ''),
 'C14-9': ('the tunnelled URL is rebuilt with ResolveReference', 'path keys that are dot segments', ''),
 'C15-8': ('a pooled URL buffer is not reset on the error path', 'a request after a failed query encoding', ''),
 'C15-9': ('the root resource is stripped from the context with path.Base / path.Dir', 'context paths with doubled slashes or dot segments, or equal to the root resource', 'R15.2: path.Dir / path.Base added to the normalising calls'),
 'C16-8': ('AddKey appends to a local copy of the bucket and stores it back only when the bucket is new', 'two keys with the same hash', 'new R16.9: a slice loaded from shared storage and grown is stored back on every success path'),
 'C16-9': ('AddAllMapKeys discards the error of AddKey', 'duplicate keys among map keys', ''),
 'C17-8': ('RequiredFields builds an index lazily on first decode, unsynchronised', 'the first decodes of a record type overlapping (cold start); go test -race', 'new R17.11: values shared through package-level variables are written only by their construction API'),
 'C17-9': ('serviceUris is updated in place under an RWMutex in two passes', 'a resolve between the two passes', ''),
 'C18-8': ('Store publishes once through LoadOrStore and once more unconditionally', 'a second Store completing between the two publications', 'R18.7: the raw sync.Map.Store is reached only where the flag is known lowered'),
 'C18-9': ('entries whose computation failed are deleted', 'a Store ordered after the failing computation', ''),
 'C19-8': ('Uri.UnmarshalJSON skips hosts announced with weight 0', 'announcements whose hosts all have weight 0', 'new R19.4: every loop over the decoded document stores each entry'),
 'C19-9': ('the delete fast path looks the event path up', 'deletion of a node announced under a different path form', ''),
 'C20-8': ('WriteJenFile remembers the directories it created in a process-wide sync.Map', 'clean then regenerate in the same process', 'new R20.6(a): every file write is reached only through MkdirAll'),
 'C20-9': ('CleanTargetDir removes the manifest after the directory was cleaned', 'a directory that only holds generated files and the manifest', 'new R20.6(b): the manifest is removed before the directory is listed'),
}
demo = {}
for l in open(V + '/tools/seeds.tsv'):
    f = l.rstrip('\n').split('\t')
    demo[f[0]] = f[1]
conf = {}
for l in open(V + '/seeded/round5_confirmations.txt'):
    m = re.match(r'(C\d\d-\d) \| baseline: (.*?) \| with: (.*?) \| without: (.*)', l)
    if m:
        conf[m.group(1)] = (m.group(2), 'FAIL' if 'FAIL' in m.group(3) else m.group(3).split()[0], m.group(4).split()[0])
conf['C17-8'] = (conf['C17-8'][0], 'FAIL (go test -race: DATA RACE reports)', 'ok')
first = {}
for l in open(V + '/seeded/round5_first_run.txt'):
    m = re.match(r'(CAUGHT|MISSED) (C\d\d-\d)', l)
    if m:
        first[m.group(2)] = m.group(1)
final = {}
for l in open(sys.argv[1]):
    m = re.match(r'(CAUGHT|MISSED) (C\d\d-\d)(?: \((\w+)\): .*?\[(R[\d.]+\w*)\])?', l)
    if m:
        final[m.group(2)] = (m.group(1), m.group(4), m.group(3))
for sid, (what, needs, strengthening) in sorted(change.items()):
    res, rule, tier = final.get(sid, ('?', None, None))
    meta = {
        'id': sid, 'property': sid[:3], 'round': 5, 'change': what, 'needs_to_manifest': needs, 'demonstration': demo[sid],
        'confirmed': {'how': 'tools/verify_seeds.sh in a scratch worktree of /repo HEAD: patch applied, pinned baseline rerun, demonstration run with and without the change',
                      'baseline': conf[sid][0], 'demo_with_change': conf[sid][1], 'demo_without_change': conf[sid][2]},
        'checked': {'how': 'tools/run_seeds.sh %s: git -C /repo apply <patch>; ./check %s quick (then thorough); git -C /repo checkout -- .' % (sid, sid[:3]),
                    'result': res, 'rule': rule, 'tier': tier, 'first_run': first.get(sid, '?')},
        'patch': 'patch.diff (as delivered, against 7c50926)',
        'produced_by': 'fresh sub-agent given only the property text and a scratch worktree (fifth round: two changes per property, asked for mechanisms that need two sites or a resource-reuse optimisation)',
    }
    if strengthening:
        meta['checked']['strengthening'] = strengthening
    json.dump(meta, open('%s/seeded/%s/meta.json' % (V, sid), 'w'), indent=1)
    open('%s/seeded/%s/meta.json' % (V, sid), 'a').write('\n')
print(len(change), 'meta files')
