#!/usr/bin/env python3
"""Writes seeded/<id>/meta.json for the sixth seeding round from the stored run outputs (development tooling).
usage: mkmeta_round6.py <final run_seeds output>"""
import json, re, sys
V = '/verif'
change = {
 'C01-10': ('root module: the JSON reader reads floats with lexer.Float32 / Float64 instead of JsonNumber()', 'a float or double that is NaN or an infinity (written as the reserved strings)', 'new R01.10: the float read methods of the JSON reader go through JsonNumber()'),
 'C01-11': ('genericWriter.WriteMap copies each entry with gw.Raw(e.writer.Buffer.Buf, nil) instead of DumpTo', 'an entry whose encoding outgrows the first 128-byte chunk of easyjson\'s buffer', 'new R01.11: no selection of easyjson\'s Buffer.Buf'),
 'C02-10': ('root module: ServeHTTP runs path.Clean over the escaped request path', 'a path key that is exactly `.` or `..`', 'new R02.8: no normalising call between the request URL and the routed segments'),
 'C02-11': ('EncodeTunnelledQuery adds the method-override header only when the verb is not POST', 'a tunnelled POST (create, partial update, action) with a query over the threshold', 'new R14.6: the override header is set from the verb on every path'),
 'C03-10': ('root module: BatchResponse.MarshalRestLi skips sections whose map is nil', 'a batch in which every key fails (no results)', ''),
 'C03-11': ('jsonReader.ReadFloat32 parses with lexer.Float32()', 'a float field holding NaN / Infinity in JSON', 'new R01.10 (registered for C03)'),
 'C04-10': ('root module: readJsonBytes indexes the result with the byte offset of `range s`', 'a bytes string with a byte >= 0x80 that is not the last one', 'R01.8 registered for C04'),
 'C04-11': ('CreateWithReturnEntity tolerates the missing-id-header error and then dereferences the nil key', 'a 2xx create response without X-RestLi-Id', 'new R04.12: a pointer that came with an error is dereferenced only where the error is known nil'),
 'C05-10': ('root module: pathNode stores its path with append(p.path, segment) at registration', 'a tree four levels deep with two siblings at level four', ''),
 'C05-11': ('ServeHTTP splits the path with strings.FieldsFunc', 'a request path with an empty segment (trailing or doubled slash)', 'new R02.8 (registered for C05)'),
 'C06-10': ('root module: ElementsWithMetadata.UnmarshalRestLi reads into a temporary and copies it over only when ReadRecord returned nil', 'a finder response with a missing required field, read by a lenient client', 'new R06.8: no receiver field is assigned after ReadRecord returned'),
 'C06-11': ('the query-parameter reader prefixes missing-field paths itself (k + "." + f) and no longer seeds the tracker scope', 'a required field missing inside an element of an array-valued parameter', 'new R06.9: elements of missingFields are built by the tracker\'s recorder only'),
 'C07-10': ('root module: IsKeyExcluded returns early on the excluded branch without popping the scope', 'a nested record that omits an excluded required field, followed by a read-only value', ''),
 'C07-11': ('SetScope builds the child scope with append(out.scope[:0], scope...) on a shallow struct copy', 'batch_update of two or more entities whose last written field is excluded', 'R12.6: a truncating append through the field of a struct copy rewrites the original\'s elements'),
 'C08-10': ('root module: newErrorResponsef no longer passes an *ErrorResponse cause through', 'an error response returned by a finder or an action', ''),
 'C08-11': ('BatchResponse.MarshalRestLi leaves out empty maps (through a new helper)', 'a batch call in which no key succeeds', 'R02.7 registered for C08'),
 'C09-10': ('the header escaper becomes a loop of strings.ReplaceAll over a map', 'a key containing one of , ( ) \' : (the % of an earlier replacement is escaped again, depending on map order)', 'R09.1: an outer string rewritten from itself and the entry visited is an order-dependent fold'),
 'C09-11': ('SetScope reuses the parent\'s scope buffer (same change as C07-11, found independently)', 'batch_update bodies built from a map of two or more entities', 'R12.6 (see C07-11)'),
 'C10-10': ('root module generator: IsValid is bounded by int(e) < len(_X_strings), excluding the last symbol', 'the last declared symbol of an enum', 'none: root-module generator templates have no corpus (documented limit)'),
 'C10-11': ('fnv1a.ZeroHash returns the address of a package-level hash', 'a caller that folds more data into the hash of a nil value', ''),
 'C11-10': ('root module generator: enum lookup through sort.SearchStrings without comparing the hit', 'an undeclared symbol that sorts before or between declared ones', 'none: root-module generator templates have no corpus (documented limit)'),
 'C11-11': ('generated union decoder marks the member inside each case through a helper that keeps the marshaler\'s first-member shortcut', 'a document in which the first declared member comes second, or twice', ''),
 'C12-10': ('root module generator: SortedFields returns r.Fields itself when already sorted; a caller splices into it', 'a finder with three sorted parameters', 'R12.6: call results of functions that hand out their receiver\'s slice are not owned; truncating append through such a local'),
 'C12-11': ('typeRegistry.Register records the package root before it rejects an already registered type', 'multi-manifest generation with a shared dependency type', 'new R12.12: error returns of Register precede every store'),
 'C13-10': ('root module generator: parsed defaults are emitted by closures collected in a slice, capturing the range variable (go 1.18)', 'a record whose array / map / record default is not its last defaulted field', 'new R12.13: kept closures do not capture a loop variable when the go directive is below 1.22'),
 'C13-11': ('jsonReader.ReadMap calls UnsafeFieldName(true)', 'an object key spelled with a JSON escape', 'new R03.5: UnsafeFieldName is called with the constant false'),
 'C14-10': ('root module: the tunnelling guard, moved into a helper, is negated with < instead of <=', 'a query whose length equals the threshold', ''),
 'C14-11': ('DecodeTunnelledQuery grows its buffer by req.ContentLength', 'a tunnelled request with unknown length (chunked): ContentLength is -1', 'R04.7 registered for C14'),
 'C15-10': ('root module: RootResource slices s with an offset found in s[1:]', 'a multi-segment resource path and a context ending in the root (or the root minus a byte)', 'new R15.8: an offset found in a re-sliced string is applied with its base'),
 'C15-11': ('formatQueryUrl rebuilds the URL from RawPath / Path and parses it again', 'a key containing a literal %, ? or #', ''),
 'C16-10': ('root module: the primitive key set looks the raw key text up before decoding it', 'a requested key that is literally the encoding of another requested key', 'new R16.10: lookups in the key table use the decoded key'),
 'C16-11': ('doBatchQuery goes through DoAndUnmarshal, whose lenient mode drops the locator\'s missing-fields error', 'a response entry whose complex key lacks a required field, lenient client', 'new R16.11: doBatchQuery returns the decoder\'s verdict itself'),
 'C17-10': ('root module: newErrorResponsef writes the status into the resource\'s shared *ErrorResponse', 'a status-less error returned by an action and by another method', ''),
 'C17-11': ('chooseHost lower-cases the prioritized schemes in place in the shared service definition', 'a scheme spelled in upper case and two concurrent resolutions', 'new R17.12: nothing reachable from a resolution stores through a parameter'),
 'C18-10': ('root module: Load waits through a helper with a value receiver (a copy of the WaitGroup)', 'a Load between the owner\'s publication of the placeholder and its Done()', 'new R18.8: no value containing a sync primitive is copied; value-receiver methods over such types are never folded'),
 'C18-11': ('the placeholder loses its v field; waiters re-load the key after Wait()', 'a Store landing between the owner\'s Done() and the waiter\'s re-load', ''),
 'C19-10': ('root module: Uri.UnmarshalJSON parses the three maps through a helper called three times with err overwritten', 'a malformed host in weights while the later maps parse', 'R11.7 registered for C19 (the floor of R19.4 caught it at first)'),
 'C19-11': ('serviceUris gains an ordered nodes slice that copy() shares and remove() edits in place', 'a delete after an earlier snapshot was handed out', 'new R19.5: no map / slice field of the copy shares the original\'s storage'),
 'C20-10': ('root module: the cleaner counts remaining entries, checking existence with Lstat on the bare entry name', 'a nested directory with a user file, target other than "."', ''),
 'C20-11': ('the cleaner keeps *.gr.go files whose mode is not 0444', 'a generated tree that went through git checkout or cp -r', 'new R20.7: an entry with the generated suffix is removed on every path'),
}
demo = {}
for l in open(V + '/tools/seeds.tsv'):
    f = l.rstrip('\n').split('\t')
    demo[f[0]] = f[1]
conf = {}
for l in open(V + '/seeded/round6_confirmations.txt'):
    m = re.match(r'(C\d\d-\d+) \| baseline: (.*?) \| with: (.*?) \| without: (.*)', l)
    if m:
        conf[m.group(1)] = (m.group(2), 'FAIL' if 'FAIL' in m.group(3) else m.group(3).split()[0], m.group(4).split()[0])
first = {}
for l in open(V + '/seeded/round6_first_run.txt'):
    m = re.match(r'(CAUGHT|MISSED) (C\d\d-\d+)', l)
    if m:
        first[m.group(2)] = m.group(1)
final = {}
for l in open(sys.argv[1]):
    m = re.match(r'(CAUGHT|MISSED) (C\d\d-\d+)(?: \((\w+)\): .*?(?:\[(R[\d.]+\w*)\]|FLOOR: (R[\d.]+\w*)/))?', l)
    if m:
        final[m.group(2)] = (m.group(1), m.group(4) or m.group(5), m.group(3))
for sid, (what, needs, strengthening) in sorted(change.items()):
    res, rule, tier = final.get(sid, ('?', None, None))
    meta = {
        'id': sid, 'property': sid[:3], 'round': 6, 'change': what, 'needs_to_manifest': needs, 'demonstration': demo[sid],
        'confirmed': {'how': 'tools/verify_seeds.sh in a scratch worktree of /repo HEAD: patch applied, pinned baseline rerun, demonstration run with and without the change',
                      'baseline': conf[sid][0], 'demo_with_change': conf[sid][1], 'demo_without_change': conf[sid][2]},
        'checked': {'how': 'tools/run_seeds.sh %s: git -C /repo apply <patch>; ./check %s quick (then thorough); git -C /repo checkout -- .' % (sid, sid[:3]),
                    'result': res, 'rule': rule or '—', 'tier': tier, 'first_run': first.get(sid, '?')},
        'patch': 'patch.diff (as delivered, against 7c50926)',
        'produced_by': 'fresh sub-agent given only the property text and a scratch worktree (sixth round: change 1 in the root module or an untouched layer, emphasis on error paths, order of side effects, boundary values, standard-library semantics)',
    }
    if strengthening:
        meta['checked']['strengthening'] = strengthening
    json.dump(meta, open('%s/seeded/%s/meta.json' % (V, sid), 'w'), indent=1)
    open('%s/seeded/%s/meta.json' % (V, sid), 'a').write('\n')
print(len(change), 'meta files')
