#!/usr/bin/env python3
"""Writes seeded/<id>/meta.json for the seventh seeding round from the stored run outputs (development tooling).
usage: mkmeta_round6.py <final run_seeds output>"""
import json, re, sys
V = '/verif'
change = {
 'C01-12': ('generator: a non-empty array / map default is parsed once into a package-level variable and copied by header (`val := _X_default; r.F = &val`)', 'two records decoded with the field unset, the first one edited in place', 'R13.1 / R13.3 registered for C01'),
 'C01-13': ('NewRor2ReaderWithExcludedFields trims whitespace around its input', 'a bare top-level string or bytes value in the header flavour that starts or ends with whitespace', 'new R01.12: reader constructors hand the input to the reader unchanged'),
 'C02-12': ('ror2Reader.ReadString compares the empty-string marker after percent-decoding', 'a key or parameter that is exactly two apostrophes', ''),
 'C02-13': ('genericBatchKeySet.LocateOriginalKey returns the decoded probe (`return key, s.contains(…)`)', 'a collection with a complex (pointer) key and a caller looking results up by the keys it passed', 'new R16.13: the probe is never handed back as the original key'),
 'C03-12': ('PartialUpdateFieldChecker.CheckField overwrites HasDeletes / HasSets instead of raising them', 'a patch with a set field and a deleted field', 'new R03.6: the section flags only accumulate'),
 'C03-13': ('the client reads responses into pooled buffers; decoded map keys alias the buffer (UnsafeFieldName)', 'a decoded value with a map field kept across the next response', ''),
 'C04-12': ('UnmarshalQueryParamsDecoder returns the new instance for an empty query without DecodeQueryParams', 'a batch method called with no query string at all', 'new R04.13: every non-error return has decoded the parameters'),
 'C04-13': ('root module: anyReader.val dereferences with reflect.Indirect (the nil-pointer test is gone)', 'a typed nil pointer where a map or array is expected', 'new R04.14: Elem / Indirect only where IsNil is known false or the result is validated'),
 'C05-12': ('the context-key constants are split into two iota blocks of one type: keys collide', 'a filter deriving its context with ExtraRequestHeaders / AddResponseHeadersCaptor', 'new R05.8: context key constants of one type are pairwise distinct'),
 'C05-13': ('root module: Handler() memoises its deep copy in a sync.Once', 'Handler / AddToMux, a later registration, Handler again', 'new R05.9: Handler returns a value created by this call'),
 'C06-12': ('UnmarshalQueryParamsDecoder: empty-query shortcut (same idea as C04-12, found independently)', 'a method with a required query parameter called with no query at all', 'new R04.13 (registered for C06)'),
 'C06-13': ('generator: generateRequiredFields returns early when the record has no required field of its own, before the included lists are added', 'a record whose required fields all come from includes (every complex key)', ''),
 'C07-12': ('WriteGenericMap: `key, err := keyMarshaler(k)` shadows the named result; the value marshaler error is assigned to the shadow and `return err` returns nil', 'batch_partial_update with a patch touching a read-only field', 'new R08.10: a known non-nil error is mentioned again before a non-error return'),
 'C07-13': ('the leading-scope depths become named constants, one of them one too large (patch/$set)', '$delete of a read-only field, or a nested patch', ''),
 'C08-12': ('registerMethod classifies with errors.As while the writer still type-asserts', 'a resource returning a wrapped *ErrorResponse', 'new R08.11: ErrorResponse tests are plain type assertions everywhere'),
 'C08-13': ('the deferred recover moves into a helper one frame down: recover() returns nil', 'a panic in resource code, a nil created entity', ''),
 'C09-12': ('formatQueryUrl blanks path and query through the resolver\'s shared *url.URL (`base := hostUrl`)', 'a SimpleHostnameResolver with a context path and two requests', 'R15.6 registered for C09'),
 'C09-13': ('extra request headers are canonicalised inside the map range before the only-if-absent store', 'the same header under two spellings with different values', 'R09.1: a key variable rewritten before it indexes the outer map'),
 'C10-12': ('ComparableArray answers true for slices sharing their first element before comparing lengths', 'two views of one backing array with different lengths', 'new R10.10: `return true` only after the lengths were found equal'),
 'C10-13': ('generator: the Equals of a record without own fields is `return true` although it has includes', 'record Derived includes Base {}', ''),
 'C11-12': ('NewPathSpec points every leaf at one package-level empty PathSpec, which later directives write into', 'a spec in which one directive is a path prefix of another', ''),
 'C11-13': ('RegisterBatchUpdate / RegisterBatchPartialUpdate share a helper passing leadingScopeToIgnore 2 for both', 'batch_partial_update touching an excluded field, from a peer that does not filter', 'R07.3 registered for C11'),
 'C12-12': ('NonErrorFuncReturnParam returns a typed nil *Statement in a Code interface', 'partial_update without return entity but with query parameters', ''),
 'C12-13': ('getLitBytesValues iterates the UTF-8 bytes of the default instead of its characters', 'a bytes / fixed default with a byte >= 0x80', ''),
 'C13-12': ('anyReader.ReadMap skips entries whose value IsZero()', 'a defaulted field supplied as 0 / false / "" through the untyped reader', 'new R13.6: no reflect.Value.IsZero in restlicodec'),
 'C13-13': ('ror2Reader.ReadArray leaves the `)` of an empty List() unconsumed', 'a ROR2 record with an empty array that is not its last field', 'new R13.7: every success return of ReadArray has stepped over a byte known to be `)` (path automaton with a copy of the byte and result codes followed)'),
 'C14-12': ('root module: DecodeTunnelledQuery closes the body in `defer func() { err = payload.Close() }()`', 'any malformed tunnelled request', 'new R14.7: a deferred literal does not overwrite the error result'),
 'C14-13': ('EncodeTunnelledQuery omits the override header when the verb is POST', 'a tunnelled POST', ''),
 'C15-12': ('generator: RootResource() returns the nearest parent instead of the first segment', 'a resource nested two levels deep and a context path ending in the root', 'R02.3 registered for C15'),
 'C15-13': ('EncodeTunnelledQuery returns the body unchanged, without headers, for POST', 'a tunnelled POST: the query is nowhere', 'R14.6 registered for C15'),
 'C16-12': ('ror2Reader.ReadInt32 delegates to ReadInt64 and truncates', 'a response key congruent mod 2^32 to a requested int32 key', 'new R16.12: narrowing integer conversions follow a bounded parse or a range guard'),
 'C16-13': ('RequiredFields.toMap returns a cached map that readRecord deletes from', 'a second decode of the same record type with a required field missing', 'new R06.10: a map the caller writes was made for this caller'),
 'C17-12': ('LoadOrStore gets a fast path returning the raw map value (a placeholder while the loader runs)', 'two requests overlapping the first resolution', ''),
 'C17-13': ('newRequest adopts the map returned by the ExtraRequestHeaders callback as the request header', 'a callback returning one static map, two requests', 'new R17.13: no header map is adopted from elsewhere'),
 'C18-12': ('root module: LoadOrStore fast path + `return s` on the loaded branch', 'two callers on an absent key', ''),
 'C18-13': ('Load writes the value it waited for back into the map', 'a Store ordered after the computation, a Load parked on the placeholder', 'new R18.9: Load calls no writing method of sync.Map'),
 'C19-12': ('chooseHost scans once with a map lookup without comma-ok: unlisted schemes read as priority 0', 'a host with an unlisted scheme and none for the first listed scheme', ''),
 'C19-13': ('waitForUriUpdates loads the snapshot once before the loop and never updates the local', 'two events on one channel', 'new R19.6: the snapshot handed to handleUriUpdate is the current one'),
 'C20-12': ('GenerateCode removes <out>/<first element of the package root> when generation fails', 'a failing generation into a directory with sibling content', ''),
 'C20-13': ('GenerateCustomTyperefInit ranges over the identifier set directly instead of the sorted Range', 'two custom typerefs in one package, two runs', 'R12.3 registered for C20'),
}
demo = {}
for l in open(V + '/tools/seeds.tsv'):
    f = l.rstrip('\n').split('\t')
    demo[f[0]] = f[1]
conf = {}
for l in open(V + '/seeded/round7_confirmations.txt'):
    m = re.match(r'(C\d\d-\d+) \| baseline: (.*?) \| with: (.*?) \| without: (.*)', l)
    if m:
        conf[m.group(1)] = (m.group(2), 'FAIL' if 'FAIL' in m.group(3) else m.group(3).split()[0], m.group(4).split()[0])
first = {}
for l in open(V + '/seeded/round7_first_run.txt'):
    m = re.match(r'(CAUGHT|MISSED) (C\d\d-\d+)', l)
    if m:
        first[m.group(2)] = m.group(1)
final = {}
for l in open(sys.argv[1]):
    m = re.match(r'(CAUGHT|MISSED) (C\d\d-\d+)(?: \((\w+)\): .*?(?:\[(R[\d.]+\w*)\]|FLOOR: (R[\d.]+\w*)/))?', l)
    if m:
        final[m.group(2)] = (m.group(1), m.group(4) or m.group(5), m.group(3))
for sid, (what, needs, strengthening) in sorted(change.items()):
    res, rule, tier = final.get(sid, ('?', None, None))
    meta = {
        'id': sid, 'property': sid[:3], 'round': 7, 'change': what, 'needs_to_manifest': needs, 'demonstration': demo[sid],
        'confirmed': {'how': 'tools/verify_seeds.sh in a scratch worktree of /repo HEAD: patch applied, pinned baseline rerun, demonstration run with and without the change',
                      'baseline': conf[sid][0], 'demo_with_change': conf[sid][1], 'demo_without_change': conf[sid][2]},
        'checked': {'how': 'tools/run_seeds.sh %s: git -C /repo apply <patch>; ./check %s quick (then thorough); git -C /repo checkout -- .' % (sid, sid[:3]),
                    'result': res, 'rule': rule or '—', 'tier': tier, 'first_run': first.get(sid, '?')},
        'patch': 'patch.diff (as delivered, against 7c50926)',
        'produced_by': 'fresh sub-agent given only the property text and a scratch worktree (seventh round: both changes in places no earlier change touched; emphasis on agreement between two sites, aliasing and shared mutable state, type-level subtleties, almost-equivalent conditions)',
    }
    if strengthening:
        meta['checked']['strengthening'] = strengthening
    json.dump(meta, open('%s/seeded/%s/meta.json' % (V, sid), 'w'), indent=1)
    open('%s/seeded/%s/meta.json' % (V, sid), 'a').write('\n')
print(len(change), 'meta files')
