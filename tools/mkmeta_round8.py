#!/usr/bin/env python3
"""Writes seeded/<id>/meta.json for the eighth seeding round from the stored run outputs (development tooling).
usage: mkmeta_round6.py <final run_seeds output>"""
import json, re, sys
V = '/verif'
change = {
 'C01-14': ('ror2Writer.writeKey caches escaped keys in a package-level sync.Map shared by the header, path and query flavours', 'a key containing + & or = written by the header or path writer first, then by the query writer', ''),
 'C02-14': ('compactJsonWriter.WriteBytes writes valid UTF-8 content as-is (`String(string(v))`) instead of one character per byte', 'a bytes value that is well-formed UTF-8 with a non-ASCII character', 'new R02.9: the []byte parameter of WriteBytes is never converted to a string as a whole'),
 'C03-14': ('headerEncodingEscaper becomes a byte loop with an early exit whose reserved set omits %', 'a key or id containing % and none of , ( ) \' :', ''),
 'C04-14': ('genericBatchKeySet: shared helper locate(bucket, key) compares bucket[0] first; LocateOriginalKey passes the (possibly nil) bucket', 'a response key that decodes but was never requested, complex key type', 'new R04.15: constant index on a slice only under a len() test (control included)'),
 'C05-14': ('DecodeTunnelledQuery reads the body with one Read into make([]byte, ContentLength)', 'a tunnelled body larger than what the first Read returns (~4 KiB over a socket)', 'R04.7 registered for C05'),
 'C06-14': ('missingFieldsTracker.IsKeyExcluded rewritten as an in-place match over the whole scope (not currentScope[scopeToIgnore:])', 'a required, excluded, absent field under a reader with a leading scope to ignore (batch_create …)', 'new R07.12: every exclusion match of the tracker slices by scopeToIgnore'),
 'C07-14': ('newRequest split into plain and tunnelled branches; the tunnelled helper serialises with NewCompactJsonWriter() (no exclusion spec)', 'a tunnelled create / update / patch with read-only fields', 'new R07.13: a function with a PathSpec parameter creates no writer without it'),
 'C08-14': ('both LocateOriginalKeyFromReader share a helper that returns the decoded key', 'batch errors / results of a complex-key collection looked up by the caller\'s keys', 'new R16.14: the decoded probe is never the returned key'),
 'C09-14': ('generator: the `!= nil` guard of writeField extended to required arrays, maps and references', 'a required collection that is nil in one copy and empty in the other (and value-typed references no longer compile)', 'R12.1 registered for C09 (first run: caught by a corpus floor only)'),
 'C10-14': ('generator: collections of a fixed are compared with equals.ComparableArray / Map (element type is a pointer)', 'an array or map of a fixed, compared with a deep copy', 'new R10.11: no Comparable helper instantiated with a pointer or interface'),
 'C11-14': ('IsKeyExcluded returns early on the excluded branch without popping the probed key', 'an excluded required field omitted in entity 1 of a batch patch, an excluded field touched in entity 2', ''),
 'C12-14': ('LocateCustomTyperefs computes the directory from the namespace (FqcpToPackagePath) instead of PackagePath()', 'a custom typeref referenced from a package cycle (relocated to conflictResolution)', 'new R12.14: FqcpToPackagePath is called by PackagePath methods only'),
 'C13-14': ('RawRecord.UnmarshalTo returns nil for a nil or empty record without calling the target decoder', 'an empty untyped document decoded into a record with defaults', 'new R13.8: every non-error return of UnmarshalTo has called UnmarshalRestLi'),
 'C14-14': ('LoggingRoundTripper de-tunnels a Clone of the outgoing request for logging (Clone shares the Body)', 'a tunnelled request through a logging transport', 'new R14.8: DecodeTunnelledQuery is called by rootNode.ServeHTTP only'),
 'C15-14': ('batchQueryParams treats an all-zero params struct (reflect IsZero) as no params', 'a batch call whose required params are all 0 / false / ""', 'R13.6 extended to the restli package and registered for C15'),
 'C16-14': ('jsonReader.ReadMap calls UnsafeFieldName(true)', 'a batch key that needs a JSON escape as a member name', 'R03.5 registered for C16'),
 'C17-14': ('handleServiceUpdate decodes the new definition over a shallow copy of the published one', 'a second service event while a resolution still holds the earlier snapshot', 'new R19.7: json.Unmarshal targets are created empty, no `*target = …` copy before'),
 'C18-14': ('root module: Store inlined with its own placeholder; wg.Done() lost', 'a Load between the raw LoadOrStore and the raw Store on a fresh key', ''),
 'C19-14': ('handleServiceUpdate starts from `*s = *current` before json.Unmarshal (same idea as C17-14, found independently)', 'a service update that omits prioritizedSchemes, or shrinks it while an earlier snapshot is held', 'new R19.7 (see C17-14)'),
 'C20-14': ('CodeFile.Write renders into <file>.tmp and renames it over the target', 'a user file named <generated file>.tmp', ''),
}
demo = {}
for l in open(V + '/tools/seeds.tsv'):
    f = l.rstrip('\n').split('\t')
    demo[f[0]] = f[1]
conf = {}
for l in open(V + '/seeded/round8_confirmations.txt'):
    m = re.match(r'(C\d\d-\d+) \| baseline: (.*?) \| with: (.*?) \| without: (.*)', l)
    if m:
        conf[m.group(1)] = (m.group(2), 'FAIL' if 'FAIL' in m.group(3) else m.group(3).split()[0], m.group(4).split()[0])
first = {}
for l in open(V + '/seeded/round8_first_run.txt'):
    m = re.match(r'(CAUGHT|MISSED) (C\d\d-\d+)', l)
    if m:
        first[m.group(2)] = m.group(1)
final = {}
for l in open(sys.argv[1]):
    m = re.match(r'(CAUGHT|MISSED) (C\d\d-\d+)(?: \((\w+)\): .*?(?:\[(R[\d.]+\w*)\]|FLOOR: (R[\d.]+\w*)/))?', l)
    if m:
        final[m.group(2)] = (m.group(1), m.group(4) or m.group(5), m.group(3))
for sid, (what, needs, strengthening) in sorted(change.items()):
    res, rule, tier = final.get(sid, ('?', None, None))
    meta = {
        'id': sid, 'property': sid[:3], 'round': 8, 'change': what, 'needs_to_manifest': needs, 'demonstration': demo[sid],
        'confirmed': {'how': 'tools/verify_seeds.sh in a scratch worktree of /repo HEAD: patch applied, pinned baseline rerun, demonstration run with and without the change',
                      'baseline': conf[sid][0], 'demo_with_change': conf[sid][1], 'demo_without_change': conf[sid][2]},
        'checked': {'how': 'tools/run_seeds.sh %s: git -C /repo apply <patch>; ./check %s quick (then thorough); git -C /repo checkout -- .' % (sid, sid[:3]),
                    'result': res, 'rule': rule or '—', 'tier': tier, 'first_run': first.get(sid, '?')},
        'patch': 'patch.diff (as delivered, against 7c50926)',
        'produced_by': 'fresh sub-agent given only the property text and a scratch worktree (eighth round: one change per property, in a place no earlier change touched; emphasis on option handling, resource lifecycle, fast paths, standard-library contracts, generic / interface dispatch)',
    }
    if strengthening:
        meta['checked']['strengthening'] = strengthening
    json.dump(meta, open('%s/seeded/%s/meta.json' % (V, sid), 'w'), indent=1)
    open('%s/seeded/%s/meta.json' % (V, sid), 'a').write('\n')
print(len(change), 'meta files')
