#!/usr/bin/env python3
"""Writes seeded/<id>/meta.json for the ninth seeding round from the stored run outputs (development tooling).
usage: mkmeta_round6.py <final run_seeds output>"""
import json, re, sys
V = '/verif'
change = {
 'C02-15': ('registerAction skips the decoder when the trimmed body is no longer than `{}`', 'an action whose parameters are all optional, called with every one unset (the client sends exactly `{}`): the implementation receives nil', 'new R04.16: every path to the implementation decoded the body or established IsEmptyRecord(params)'),
 'C04-15': ('registerAction skips the decoder for a zero-length body (`len(body) != 0 && !IsEmptyRecord(params)`)', 'an action with required parameters called with an empty POST body: resource code runs with nil params, recovered panic, 500 with a stack trace', 'new R04.16 (see C02-15; found independently)'),
 'C05-15': ('pathNode.subNode remembers the node of the last registration, keyed by depth and last segment only', 'two sub-resources of the same name and kind at the same depth under different parents, registered one after the other', 'new R05.10: every return of subNode comes after the walk over all segments; the walk stores into subNodes maps and its locals only'),
 'C06-15': ('jsonReader.Skip calls lexer.Skip() (one token) instead of SkipRecursive()', 'a JSON document with an unknown field whose value is an object or array', 'new R06.11: one-token Skip only under IsNull(); jsonReader.Skip reaches SkipRecursive on every return'),
 'C07-15': ('missingFieldsTracker.enterMapScope returns early when the scope is deeper than the longest excluded path', 'a partial update that sets an excluded field at the depth of the longest path of the spec ($set / $delete lengthen the scope by one)', ''),
 'C08-15': ('Client.Do returns (res, nil) for every 2xx status before looking at the error header', 'a resource that returns an ErrorResponse whose Status is 2xx', ''),
 'C10-15': ('NewBatchKeySet hoists one hash closure (ComputeHash of the whole value) for the ComplexKey and SimpleKey cases; equality of complex keys still ignores $params', 'a set built by the dynamic dispatcher for a complex key; two keys that differ in $params only', ''),
 'C12-15': ('generator: ComputeHash of an array / map of a custom typeref goes through AddHashableArray / AddHashableMap (the IsCustomTyperef test dropped)', 'a schema with an array or map whose element type is a custom typeref: the bindings do not compile', ''),
 'C16-15': ('one constructor newRor2Reader for the header/path/key reader and the query reader, decoding with url.QueryUnescape', 'a batch-response key whose encoded form contains + (a string or bytes key, a float at or above 1e21)', 'R01.1 registered for C16'),
 'C17-15': ('rootNode.ServeHTTP defaults the message of a resource\'s ErrorResponse in place instead of on a copy', 'a resource that returns the same message-less *ErrorResponse for several requests; two overlapping requests (or a later one that copies it and overrides the status)', ''),
}
demo = {}
for l in open(V + '/tools/seeds.tsv'):
    f = l.rstrip('\n').split('\t')
    demo[f[0]] = f[1]
conf = {}
for l in open(V + '/seeded/round9_confirmations.txt'):
    m = re.match(r'(C\d\d-\d+) \| baseline: (.*?) \| with: (.*?) \| without: (.*)', l)
    if m:
        conf[m.group(1)] = (m.group(2), 'FAIL' if 'FAIL' in m.group(3) else m.group(3).split()[0], m.group(4).split()[0])
first = {}
for l in open(V + '/seeded/round9_first_run.txt'):
    m = re.match(r'(CAUGHT|MISSED) (C\d\d-\d+)', l)
    if m:
        first[m.group(2)] = m.group(1)
final = {}
for l in open(sys.argv[1]):
    m = re.match(r'(CAUGHT|MISSED) (C\d\d-\d+)(?: \((\w+)\): .*?(?:\[(R[\d.]+\w*)\]|FLOOR: (R[\d.]+\w*)/))?', l)
    if m:
        final[m.group(2)] = (m.group(1), m.group(4) or m.group(5), m.group(3))
for sid, (what, needs, strengthening) in sorted(change.items()):
    res, rule, tier = final.get(sid, ('?', None, None))
    meta = {
        'id': sid, 'property': sid[:3], 'round': 9, 'change': what, 'needs_to_manifest': needs, 'demonstration': demo[sid],
        'confirmed': {'how': 'tools/verify_seeds.sh in a scratch worktree of /repo HEAD: patch applied, pinned baseline rerun, demonstration run with and without the change',
                      'baseline': conf[sid][0], 'demo_with_change': conf[sid][1], 'demo_without_change': conf[sid][2]},
        'checked': {'how': 'tools/run_seeds.sh %s: git -C /repo apply <patch>; ./check %s quick (then thorough); git -C /repo checkout -- .' % (sid, sid[:3]),
                    'result': res, 'rule': rule or '—', 'tier': tier, 'first_run': first.get(sid, '?')},
        'patch': 'patch.diff (as delivered, against 7c50926)',
        'produced_by': 'fresh sub-agent given only the property text and a scratch worktree (ninth round: ten properties, one change each, same brief as the eighth round, thirteen-minute budget)',
    }
    if strengthening:
        meta['checked']['strengthening'] = strengthening
    json.dump(meta, open('%s/seeded/%s/meta.json' % (V, sid), 'w'), indent=1)
    open('%s/seeded/%s/meta.json' % (V, sid), 'a').write('\n')
print(len(change), 'meta files')
