#!/usr/bin/env python3
"""mkmutant.py <name> <property> <rule> <file> <old> <new> [<file> <old> <new> ...]
Creates /verif/mutants/<name>.patch (+ .json) from textual replacements applied to /repo
(each must match exactly once), then restores /repo.  Development tooling."""
import sys, subprocess, json
name, prop, rule = sys.argv[1:4]
args = sys.argv[4:]
assert len(args) % 3 == 0
subprocess.check_call(['git', '-C', '/repo', 'diff', '--quiet'])
try:
    for i in range(0, len(args), 3):
        f, old, new = args[i:i+3]
        p = '/repo/' + f
        s = open(p).read()
        old = old.encode().decode('unicode_escape'); new = new.encode().decode('unicode_escape')
        assert s.count(old) == 1, (f, old, s.count(old))
        open(p, 'w').write(s.replace(old, new))
    diff = subprocess.check_output(['git', '-C', '/repo', 'diff'])
    open(f'/verif/mutants/{name}.patch', 'wb').write(diff)
    json.dump({"name": name, "property": prop, "rule": rule}, open(f'/verif/mutants/{name}.json', 'w'))
finally:
    subprocess.check_call(['git', '-C', '/repo', 'checkout', '--', '.'])
print('wrote', name)
