#!/bin/sh
# Applies each behaviour-preserving change under /verif/benign/<id>/patch.diff to /repo, runs EVERY rule once (quick tier),
# undoes it.  A check that alarms on one of these is wrong: the property still holds.  Development tooling.
cd /verif; . ./env.sh
git -C /repo diff --quiet || { echo "/repo dirty"; exit 2; }
pat="${1:-}"
for d in /verif/benign/*/; do
  id=$(basename $d)
  case "$id" in *"$pat"*) ;; *) continue;; esac
  git -C /repo apply "$d/patch.diff" 2>/dev/null || git -C /repo apply --3way "$d/patch.diff" 2>/dev/null || { echo "$id APPLY-FAIL"; git -C /repo reset -q --hard; continue; }
  out=$(bin/restlicheck -property ALL -tier quick 2>&1); rc=$?
  git -C /repo reset -q --hard; git -C /repo clean -fdq
  if [ $rc -eq 0 ]; then echo "SILENT $id"; else echo "ALARM  $id: $(echo "$out" | grep -E 'VIOLATED|UNDECIDED|FLOOR|ERROR' | cut -c1-300 | head -4)"; fi
done
