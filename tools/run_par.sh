#!/bin/sh
# run_par.sh benign|seeds [N] [pattern]: runs the benign / seeded regression in N scratch worktrees of /repo's HEAD in
# parallel (restlicheck -repo <worktree>); prints SILENT/ALARM or CAUGHT/MISSED lines like run_benign.sh / run_seeds.sh.
# Development tooling; the worktrees live under /root/scratch and are removed at the end.
cd /verif; . ./env.sh
kind=$1; N=${2:-6}; pat="${3:-}"
git -C /repo diff --quiet || { echo "/repo dirty"; exit 2; }
case $kind in
  benign) ls -d /verif/benign/*/ | xargs -n1 basename | grep -- "$pat" > /tmp/par-list.$$ ;;
  seeds)  cut -f1 /verif/tools/seeds.tsv | grep -- "$pat" > /tmp/par-list.$$ ;;
  *) echo "usage: run_par.sh benign|seeds [N] [pattern]"; exit 2;;
esac
worker() {
  i=$1; W=/root/scratch/wtp-$i
  git -C /repo worktree remove --force $W 2>/dev/null; git -C /repo worktree add -q --detach $W HEAD || exit 2
  awk -v n=$N -v i=$i 'NR % n == i' /tmp/par-list.$$ | while read id; do
    cd $W && git reset -q --hard && git clean -fdq
    if [ $kind = benign ]; then
      git apply /verif/benign/$id/patch.diff 2>/dev/null || git apply --3way /verif/benign/$id/patch.diff 2>/dev/null || { echo "$id APPLY-FAIL"; continue; }
      out=$(/verif/bin/restlicheck -repo $W -property ALL -tier quick 2>&1); rc=$?
      if [ $rc -eq 0 ]; then echo "SILENT $id"; else echo "ALARM  $id: $(echo "$out" | grep -E 'VIOLATED|UNDECIDED|FLOOR|ERROR|panic' | cut -c1-300 | head -4)"; fi
    else
      prop=${id%-*}
      p=/verif/seeded/$id/patch.rebased.diff; [ -f "$p" ] || p=/verif/seeded/$id/patch.diff
      git apply "$p" || { echo "$id APPLY-FAIL"; continue; }
      out=$(/verif/bin/restlicheck -repo $W -property $prop -tier quick 2>&1); rc=$?; tier=quick
      if [ $rc -eq 0 ]; then out=$(/verif/bin/restlicheck -repo $W -property $prop -tier thorough 2>&1); rc=$?; tier=thorough; fi
      if [ $rc -eq 1 ]; then echo "CAUGHT $id ($tier): $(echo "$out" | grep -E 'VIOLATED|UNDECIDED|FLOOR|ERROR' | head -2 | cut -c1-260)"; else echo "MISSED $id"; fi
    fi
  done
  cd /; git -C /repo worktree remove --force $W
}
i=0; while [ $i -lt $N ]; do worker $i & i=$((i+1)); sleep 2; done; wait   # staggered: concurrent `git worktree add` calls can collide
rm -f /tmp/par-list.$$
