#!/bin/sh
# Applies each seeded change to /repo, runs the owning property's quick (then thorough) check, undoes it.
cd /verif; . ./env.sh
git -C /repo diff --quiet || { echo "/repo dirty"; exit 2; }
pat="${1:-}"
while IFS='	' read -r id demo dest pkg run; do
  case "$id" in *"$pat"*) ;; *) continue;; esac
  prop=${id%-*}
  p=/verif/seeded/$id/patch.rebased.diff; [ -f "$p" ] || p=/verif/seeded/$id/patch.diff
  git -C /repo apply "$p" || { echo "$id APPLY-FAIL"; continue; }
  out=$(bin/restlicheck -property $prop -tier quick 2>&1); rc=$?
  tier=quick
  if [ $rc -eq 0 ]; then out=$(bin/restlicheck -property $prop -tier thorough 2>&1); rc=$?; tier=thorough; fi
  git -C /repo checkout -- .
  if [ $rc -eq 1 ]; then echo "CAUGHT $id ($tier): $(echo "$out" | grep -E 'VIOLATED|UNDECIDED|FLOOR|ERROR' | head -2 | cut -c1-260)"; else echo "MISSED $id"; fi
done < /verif/tools/seeds.tsv
