#!/bin/sh
# Applies each /verif/mutants/*.patch to /repo, runs the owning check, asserts that it
# fires naming the expected rule, restores /repo.  Then asserts silence on the clean tree
# for the properties given as arguments (or those of the mutants).  Development tooling.
cd /verif; . ./env.sh
git -C /repo diff --quiet || { echo "/repo has uncommitted changes"; exit 2; }
fail=0
pat="${1:-}"
for j in mutants/*${pat}*.json; do
  n=$(basename "$j" .json); prop=$(jq -r .property "$j"); rule=$(jq -r .rule "$j")
  git -C /repo apply "/verif/mutants/$n.patch" || { echo "APPLY-FAIL $n"; fail=1; continue; }
  if ! (cd /repo && go build ./... 2>/dev/null >/dev/null; cd /repo/v2 && go vet ./restli/... ./restlicodec/... ./d2/... ./fnv1a/... ./codegen/... ./cmd/... >/dev/null 2>&1); then echo "NOTE $n: does not build/vet cleanly"; fi
  out=$(bin/restlicheck -property "$prop" -tier quick 2>&1); rc=$?
  git -C /repo checkout -- .
  if [ $rc -eq 1 ] && echo "$out" | grep -q "\[$rule\]"; then echo "CAUGHT  $n ($prop $rule)"; else echo "MISSED  $n ($prop $rule) rc=$rc"; fail=1; fi
done
exit $fail
