#!/usr/bin/env python3
"""Regenerates the generated parts of DESIGN.md (sections 10.2, 10.3, 10.5 and the table between the BENIGN-TABLE markers)
from tools/mkdesign_tables.py.  Development tooling."""
import subprocess, re
V='/verif'
gen=subprocess.run(['python3',V+'/tools/mkdesign_tables.py'],capture_output=True,text=True,check=True).stdout
d=open(V+'/DESIGN.md').read()
def section(text, head):
    i=text.index(head)
    m=re.search(r'\n### 10\.\d|\n<!-- BENIGN-TABLE-BEGIN', text[i+len(head):])
    j=i+len(head)+m.start()+1 if m else len(text)
    return i,j
for head in ['### 10.2 ','### 10.3 ','### 10.5 ']:
    gi,gj=section(gen,head)
    di,dj=section(d,head)
    d=d[:di]+gen[gi:gj].rstrip('\n')+'\n\n'+d[dj:]
b0,b1='<!-- BENIGN-TABLE-BEGIN -->','<!-- BENIGN-TABLE-END -->'
if b0 in d:
    tbl=gen[gen.index(b0):gen.index(b1)+len(b1)]
    d=d[:d.index(b0)]+tbl+d[d.index(b1)+len(b1):]
open(V+'/DESIGN.md','w').write(d)
