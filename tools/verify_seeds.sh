#!/bin/sh
# Confirms each seeded change in a scratch worktree of /repo's HEAD: the patch applies, the pinned
# tests still pass, the demonstration fails with the change and passes without it.  Development tooling.
. /verif/env.sh
W=${VERIF_WT:-/tmp/wt-verify}
git -C /repo worktree remove --force $W 2>/dev/null; git -C /repo worktree add -q $W HEAD || exit 2
pat="${1:-}"
while IFS='	' read -r id demo dest pkg run; do
  case "$id" in *"$pat") ;; *) continue;; esac   # suffix match: C05-1 does not select C05-12
  d=/verif/seeded/$id
  cd $W && git reset -q --hard && git clean -fdq
  # patch.diff is what the seeding agent delivered; patch.rebased.diff is the same change on today's HEAD (after later fix: commits)
  if git apply "$d/patch.diff" 2>/dev/null || git apply --3way "$d/patch.diff" 2>/dev/null; then git diff HEAD > "$d/patch.rebased.diff"
  elif git reset -q --hard && [ -s "$d/patch.rebased.diff" ] && git apply "$d/patch.rebased.diff" 2>/dev/null; then :
  else echo "$id APPLY-FAIL"; git checkout -q -- .; continue; fi
  base=$(/verif/tools/baseline.sh $W | tail -1)
  if [ "$demo" = run.sh ]; then
    # self-contained driver (generates bindings from a manifest, compiles and tests them); expects to live in <worktree>/_seed/N
    mkdir -p $W/_seed/1 && cp -r $d/. $W/_seed/1/
    with=$(sh $W/_seed/1/run.sh 2>&1 | tail -1); git reset -q --hard
    without=$(sh $W/_seed/1/run.sh 2>&1 | tail -1); rm -rf $W/_seed; git clean -fdq
    echo "$id | baseline: $base | with: $with | without: $without"; continue
  fi
  cp "$d/$demo" "$W/$dest/zz_seed_demo_test.go"
  case "$dest" in v2/*) mod=$W/v2;; *) mod=$W;; esac   # demos of the root module run from the worktree root
  with=$(cd $mod && go test -mod=mod -vet=off -count=1 -run "$run" "$pkg" 2>&1 | tail -1)
  git reset -q --hard; 
  without=$(cd $mod && go test -mod=mod -vet=off -count=1 -run "$run" "$pkg" 2>&1 | tail -1)
  rm -f "$W/$dest/zz_seed_demo_test.go"; git clean -fdq
  echo "$id | baseline: $base | with: $with | without: $without"
done < /verif/tools/seeds.tsv
git -C /repo worktree remove --force $W
